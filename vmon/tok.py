"""Tokenizer fixtures shared by the property modules."""
import os

from vmon import core

_cache = {}


def hs_cache_dir():
    d = os.path.join(core.CACHE, "hs")
    os.makedirs(d, exist_ok=True)
    return d


def prune_hs_cache(keep=2):
    d = hs_cache_dir()
    files = sorted((os.path.getmtime(os.path.join(d, f)), f) for f in os.listdir(d))
    for _, f in files[:-keep]:
        try:
            os.remove(os.path.join(d, f))
        except OSError:
            pass


def get(name):
    """'ac' = the shipped default tokenizer object, 'ref' = base Tokenizer,
    'hs' = HyperscanTokenizer (database compiled from the tree's own patterns,
    cached under /verif/.cache/hs keyed by eyecite's own pattern fingerprint)."""
    if name in _cache:
        return _cache[name]
    import eyecite.tokenizers as T

    if name == "ac":
        t = T.default_tokenizer
    elif name == "ref":
        t = T.Tokenizer()
    elif name == "hs":
        t = T.HyperscanTokenizer(cache_dir=hs_cache_dir())
        t.hyperscan_db
    else:
        raise KeyError(name)
    _cache[name] = t
    return t


def prebuild_hs():
    """Called once by the parent (in a child interpreter) so that parallel
    shards load the database instead of compiling it 14 times."""
    import subprocess

    code = "from vmon import tok; tok.get('hs'); tok.prune_hs_cache()"
    subprocess.run([core.PY, "-c", code], env=core.child_env(), cwd=core.VERIF,
                   check=False, timeout=600)
