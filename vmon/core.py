"""Core of the runtime-monitoring framework: recorder (what a shard observed),
shard runner (one subprocess per shard), aggregation, known-finding
classification, evidence writer, exit codes.

Verdicts are three-valued:
  exit 0  held on everything observed and every floor reached
  exit 1  VIOLATION property=<id> replay=<path>   (a witness file is written)
  exit 2  INCONCLUSIVE property=<id> reason=...   (shard died / timed out, or a
          deciding monitor observed fewer events than its floor)
"""
import hashlib
import importlib
import json
import os
import subprocess
import sys
import time
import traceback
from concurrent.futures import ThreadPoolExecutor

VERIF = os.path.dirname(os.path.dirname(os.path.abspath(__file__)))
REPO = os.environ.get("VMON_REPO", "/repo")
CACHE = os.path.join(VERIF, ".cache")
PY = "/venv/bin/python"
MAX_PAR = int(os.environ.get("VMON_PAR", "14"))
MAX_SAMPLES = 6


def h64(obj) -> str:
    """Stable 64-bit hash of a JSON-able object (hex)."""
    if not isinstance(obj, (str, bytes)):
        obj = json.dumps(obj, sort_keys=True, default=str, ensure_ascii=True)
    if isinstance(obj, str):
        obj = obj.encode("utf8", "surrogatepass")
    return hashlib.blake2b(obj, digest_size=8).hexdigest()


class Recorder:
    """What one shard observed. Everything in here is measured, nothing is a
    constant."""

    def __init__(self, prop, tier, seed, spec):
        self.prop, self.tier, self.seed, self.spec = prop, tier, seed, spec
        self.evaluations = 0
        self.distinct = set()
        self.distinct_overflow = 0
        self.counters = {}
        self.samples = []
        self.violations = []
        self.viol_counts = {}
        self.notes = []
        self.classify = None

    # -- observation ---------------------------------------------------
    def ev(self, n=1):
        self.evaluations += n

    def nontrivial(self, key):
        """Register one non-trivial case, identified by a JSON-able key."""
        if len(self.distinct) < 400000:
            self.distinct.add(h64(key))
        else:
            self.distinct_overflow += 1

    def count(self, name, n=1):
        self.counters[name] = self.counters.get(name, 0) + n

    def sample(self, obj, every=1):
        if len(self.samples) < MAX_SAMPLES:
            self.samples.append(obj)

    def note(self, s):
        if len(self.notes) < 20:
            self.notes.append(s)

    # -- violations ----------------------------------------------------
    def violation(self, monitor, case, observed=None, expected=None, **extra):
        """Record a violation of `monitor` on `case` (JSON-able inputs that
        allow replay)."""
        v = dict(monitor=monitor, case=case, observed=observed, expected=expected, **extra)
        v = jsonable(v)
        mech = None
        if self.classify is not None:
            try:
                mech = self.classify(v)
            except Exception:
                mech = None
        # caps are per (monitor, mechanism) so that a flood of one known
        # mechanism can never crowd out a different violation
        key = f"{monitor}|{mech}"
        self.viol_counts[key] = self.viol_counts.get(key, 0) + 1
        if self.viol_counts[key] <= 8:
            self.violations.append(v)

    def dump(self):
        return dict(
            prop=self.prop,
            spec=self.spec,
            evaluations=self.evaluations,
            distinct=sorted(self.distinct),
            distinct_overflow=self.distinct_overflow,
            counters=self.counters,
            samples=self.samples,
            violations=self.violations,
            viol_counts=self.viol_counts,
            notes=self.notes,
        )


class Reach:
    """Which lines of the eyecite package this shard really executed (sys.monitoring LINE events that
    disable themselves after the first hit: close to free). Reported in the evidence so that a reader can
    see which of the anchored mechanisms the workload reached - and which it did not."""

    def __init__(self):
        self.hit = {}
        self.ok = False

    def start(self):
        try:
            self.mon = sys.monitoring
            self.tid = self.mon.COVERAGE_ID
            self.mon.use_tool_id(self.tid, "vmon-reach")
            root = os.path.realpath(os.path.join(REPO, "eyecite")) + os.sep
            hit, disable = self.hit, self.mon.DISABLE

            def on_line(code, line):
                f = code.co_filename
                if f.startswith(root):
                    hit.setdefault(f[len(root):], set()).add(line)
                return disable

            self.mon.register_callback(self.tid, self.mon.events.LINE, on_line)
            self.mon.set_events(self.tid, self.mon.events.LINE)
            self.ok = True
        except Exception:
            self.ok = False

    def stop(self):
        if self.ok:
            try:
                self.mon.set_events(self.tid, 0)
                self.mon.register_callback(self.tid, self.mon.events.LINE, None)
                self.mon.free_tool_id(self.tid)
            except Exception:
                pass

    def dump(self):
        return {f: sorted(v) for f, v in self.hit.items()}


def executable_lines():
    """{file: {function qualname: set(lines)}} for the eyecite package under test."""
    import types
    out = {}
    root = os.path.join(REPO, "eyecite")
    for fn in sorted(os.listdir(root)):
        if not fn.endswith(".py") or fn == "test_factories.py":
            continue
        try:
            code = compile(open(os.path.join(root, fn), encoding="utf8").read(), fn, "exec")
        except Exception:
            continue
        funcs = {}

        def walk(c, name):
            lines = {l for _, _, l in c.co_lines() if l}
            if name != "<module>":
                lines.discard(c.co_firstlineno)      # the 'def' line runs at definition time
            funcs.setdefault(name, set()).update(lines)
            for k in c.co_consts:
                if isinstance(k, types.CodeType):
                    walk(k, (name + "." if name != "<module>" else "") + k.co_name)
        walk(code, "<module>")
        out[fn] = funcs
    return out


def jsonable(o):
    return json.loads(json.dumps(o, default=repr, ensure_ascii=True))


# ----------------------------------------------------------------------
# child side


def assert_repo_under_test():
    import eyecite

    f = os.path.realpath(eyecite.__file__)
    if not f.startswith(os.path.realpath(REPO) + os.sep):
        raise SystemExit(f"eyecite imported from {f}, not from {REPO}")


def shard_main(argv):
    prop, tier, seed, spec_json, out = argv
    seed = int(seed)
    spec = json.loads(spec_json)
    import faulthandler
    import logging

    faulthandler.enable()
    logging.disable(logging.CRITICAL)
    assert_repo_under_test()
    mod = importlib.import_module(f"vmon.props.{prop.lower()}")
    rec = Recorder(prop, tier, seed, spec)
    rec.classify = getattr(mod, "classify", None)
    t0 = time.time()
    reach = Reach()
    reach.start()
    try:
        mod.run_shard(spec, rec)
        status = "ok"
    except BaseException:  # noqa
        status = "crash"
        rec.note("shard crashed: " + traceback.format_exc()[-1500:])
    reach.stop()
    d = rec.dump()
    d["reach"] = reach.dump()
    d["status"] = status
    d["wall_s"] = time.time() - t0
    with open(out, "w") as f:
        json.dump(jsonable(d), f)
    return 0


# ----------------------------------------------------------------------
# parent side


def ensure_deps():
    deps = os.path.join(VERIF, ".deps")
    if not os.path.isdir(os.path.join(deps, "icontract")):
        subprocess.run(
            [
                PY, "-m", "pip", "install", "-q", "--no-index",
                "--find-links", "/opt/veriftools/wheels",
                "--target", deps, "icontract",
            ],
            check=True,
            stdout=subprocess.DEVNULL,
            stderr=subprocess.DEVNULL,
        )


def child_env(extra=None):
    env = dict(os.environ)
    env["PYTHONPATH"] = os.pathsep.join([REPO, VERIF, os.path.join(VERIF, ".deps")])
    env["PYTHONDONTWRITEBYTECODE"] = "1"
    env.setdefault("PYTHONHASHSEED", "0")
    env["EYECITE_VERIF"] = "1"
    env["PYTHONIOENCODING"] = "utf8"
    if extra:
        env.update({k: str(v) for k, v in extra.items()})
    return env


def run_one_shard(prop, tier, seed, spec, workdir, idx, timeout):
    out = os.path.join(workdir, f"shard{idx}.json")
    cmd = [PY, "-X", "faulthandler", "-m", "vmon.run", "--shard", prop, tier,
           str(seed), json.dumps(spec), out]
    env = child_env(spec.get("env"))
    t0 = time.time()
    try:
        p = subprocess.run(cmd, env=env, cwd=VERIF, timeout=timeout,
                           stdout=subprocess.PIPE, stderr=subprocess.PIPE)
        err = p.stderr.decode("utf8", "replace")[-2000:]
        if os.path.exists(out):
            with open(out) as f:
                d = json.load(f)
            d["stderr_tail"] = err[-500:] if d.get("status") != "ok" else ""
            return d
        return dict(status="dead", spec=spec, rc=p.returncode, stderr_tail=err,
                    wall_s=time.time() - t0)
    except subprocess.TimeoutExpired:
        return dict(status="timeout", spec=spec, wall_s=time.time() - t0)


def load_known():
    p = os.path.join(VERIF, "known_findings.json")
    with open(p) as f:
        return json.load(f)


def run_property(prop, tier, seed):
    """Run all shards of a property, aggregate, write evidence, return exit
    code."""
    import shutil

    ensure_deps()
    sys.path[:0] = [REPO, os.path.join(VERIF, ".deps")]
    t0 = time.time()
    mod = importlib.import_module(f"vmon.props.{prop.lower()}")
    specs = mod.plan(tier, seed)
    workdir = os.path.join(CACHE, f"run-{prop}-{os.getpid()}")
    os.makedirs(workdir, exist_ok=True)
    timeout = getattr(mod, "TIMEOUT", {}).get(tier, 900 if tier == "quick" else 4 * 3600)
    try:
        if hasattr(mod, "prepare"):
            mod.prepare(tier, seed, workdir)
        for s in specs:
            s.setdefault("workdir", workdir)
        with ThreadPoolExecutor(max_workers=MAX_PAR) as ex:
            futs = [ex.submit(run_one_shard, prop, tier, seed, s, workdir, i, timeout)
                    for i, s in enumerate(specs)]
            results = [f.result() for f in futs]
        agg = aggregate(prop, tier, seed, mod, results)
        if hasattr(mod, "finalize"):
            mod.finalize(agg, results)
    finally:
        shutil.rmtree(workdir, ignore_errors=True)
    return report(prop, tier, seed, mod, agg, time.time() - t0)


def aggregate(prop, tier, seed, mod, results):
    agg = dict(evaluations=0, distinct=set(), overflow=0, counters={}, samples=[],
               violations=[], viol_counts={}, bad_shards=[], notes=[], shards=len(results))
    for r in results:
        if r.get("status") != "ok":
            agg["bad_shards"].append(dict(status=r.get("status"), spec=r.get("spec"),
                                          stderr=r.get("stderr_tail", "")[-800:],
                                          notes=r.get("notes", [])))
        if "evaluations" not in r:
            continue
        agg["evaluations"] += r["evaluations"]
        agg["distinct"].update(r["distinct"])
        agg["overflow"] += r.get("distinct_overflow", 0)
        for k, v in r["counters"].items():
            agg["counters"][k] = agg["counters"].get(k, 0) + v
        for s in r["samples"]:
            if len(agg["samples"]) < 2 * MAX_SAMPLES:
                agg["samples"].append(s)
        agg["violations"].extend(r["violations"])
        for k, v in r["viol_counts"].items():
            agg["viol_counts"][k] = agg["viol_counts"].get(k, 0) + v
        agg["notes"].extend(r.get("notes", []))
        for f, lines in (r.get("reach") or {}).items():
            agg.setdefault("reach", {}).setdefault(f, set()).update(lines)
    return agg


def report(prop, tier, seed, mod, agg, wall):
    known = load_known()
    open_f = [f for f in known["findings"] if f["property"] == prop and f.get("status") == "open"]
    open_mech = {f["mechanism"]: f for f in open_f}
    classify = getattr(mod, "classify", lambda v: None)
    new, knownhits = [], {}
    for v in agg["violations"]:
        try:
            mech = classify(v)
        except Exception:  # a classifier must never hide a violation
            mech = None
        if mech is not None and mech in open_mech:
            knownhits.setdefault(mech, []).append(v)
        else:
            new.append(v)
    # floors
    floors = getattr(mod, "FLOORS", {}).get(tier, {})
    short = {k: (agg["counters"].get(k, 0), need) for k, need in floors.items()
             if agg["counters"].get(k, 0) < need}
    inconclusive = []
    if agg["bad_shards"]:
        inconclusive.append("shards not completed: " + ", ".join(
            f"{b['status']}" for b in agg["bad_shards"]))
    if short:
        inconclusive.append("floors not reached: " + json.dumps(short))
    if agg["evaluations"] == 0:
        inconclusive.append("no evaluations")

    evdir = os.environ.get("VMON_EVIDENCE_DIR") or os.path.join(VERIF, "evidence")
    os.makedirs(evdir, exist_ok=True)
    os.makedirs(os.path.join(VERIF, "replay"), exist_ok=True)
    replay_paths = []
    seen_mon = set()
    for v in new:
        if v["monitor"] in seen_mon and len(replay_paths) >= 5:
            continue
        seen_mon.add(v["monitor"])
        path = os.path.join(VERIF, "replay", f"{prop}-{h64(v)}.json")
        with open(path, "w") as f:
            json.dump(dict(property=prop, tier=tier, seed=seed, **v), f, indent=1,
                      ensure_ascii=True, default=repr)
        replay_paths.append(path)
        if len(replay_paths) >= 12:
            break

    distinct = len(agg["distinct"])
    cov = dict(
        evaluations=agg["evaluations"],
        distinct_nontrivial=distinct,
        rule=getattr(mod, "RULE", ""),
        samples=agg["samples"][:MAX_SAMPLES] or ["<none>"],
        monitor_counters=dict(sorted(agg["counters"].items())),
        floors=floors,
        shards=agg["shards"],
        violation_counts=agg["viol_counts"],
        known_finding_hits={k: len(v) for k, v in knownhits.items()},
        exhaustive=bool(getattr(mod, "EXHAUSTIVE", {}).get(tier, False)),
        verdict=("violated" if new else "inconclusive" if inconclusive else "held"),
        inconclusive_reasons=inconclusive,
        distinct_overflow_not_counted=agg["overflow"],
    )
    if agg["notes"]:
        cov["notes"] = agg["notes"][:10]
    try:
        ex = executable_lines()
        anchors = set()
        for l in open(os.path.join(VERIF, "properties.jsonl")):
            pj = json.loads(l)
            if pj["id"] == prop:
                anchors = set(pj["anchors"]["files"])
        reach = {}
        for f, funcs in ex.items():
            hit = agg.get("reach", {}).get(f, set())
            body = {q: ls for q, ls in funcs.items() if q != "<module>"}
            tot = set().union(*body.values()) if body else set()
            unreached = sorted(q for q, ls in body.items() if ls and not (ls & hit) and not q.endswith(("__repr__", "<lambda>", "<listcomp>", "<genexpr>", "<dictcomp>", "<setcomp>"))
                               and not q.rsplit(".", 1)[-1][:1].isupper())
            reach[f] = dict(function_lines_executed=len(tot & hit), function_lines_total=len(tot),
                            functions_never_entered=unreached[:25])
            if "eyecite/" + f in anchors:
                reach[f]["anchored_file"] = True
                reach[f]["lines_not_executed"] = sorted(tot - hit)[:80]
        cov["eyecite_code_reached"] = reach
    except Exception as e:  # evidence nicety only
        cov["eyecite_code_reached"] = {"error": str(e)[:100]}
    ev = dict(
        property_id=prop,
        tier=tier,
        seed=seed,
        level=getattr(mod, "LEVEL", "exploration"),
        coverage=cov,
        assumptions=getattr(mod, "ASSUMPTIONS", []),
        wall_s=round(wall, 2),
        violations=len(new),
    )
    with open(os.path.join(evdir, f"{prop}.json"), "w") as f:
        json.dump(jsonable(ev), f, indent=1, ensure_ascii=True)

    print(f"[{prop}] tier={tier} seed={seed} evaluations={agg['evaluations']} "
          f"distinct_nontrivial={distinct} wall={wall:.1f}s")
    for k, v in sorted(agg["counters"].items()):
        print(f"[{prop}]   {k} = {v}")
    for mech, vs in knownhits.items():
        print(f"KNOWN-FINDING: property={prop} {mech}: {open_mech[mech]['what']} "
              f"(observed {len(vs)}x this run)")
    if new:
        for v in new[:8]:
            print(f"[{prop}] violation monitor={v['monitor']} case={json.dumps(v['case'], ensure_ascii=True, default=repr)[:300]} "
                  f"observed={json.dumps(v.get('observed'), ensure_ascii=True, default=repr)[:200]} "
                  f"expected={json.dumps(v.get('expected'), ensure_ascii=True, default=repr)[:200]}")
        for pth in replay_paths:
            print(f"VIOLATION property={prop} replay={pth}")
        return 1
    if inconclusive:
        for b in agg["bad_shards"]:
            print(f"[{prop}] bad shard: {json.dumps(b, default=repr)[:1200]}")
        print(f"INCONCLUSIVE property={prop} reason={'; '.join(inconclusive)}")
        return 2
    print(f"[{prop}] held on everything observed")
    return 0


def replay(prop, path):
    ensure_deps()
    with open(path) as f:
        w = json.load(f)
    env = child_env()
    code = (
        "import sys, json, logging; logging.disable(logging.CRITICAL)\n"
        "from vmon import core; core.assert_repo_under_test()\n"
        "import importlib\n"
        f"mod = importlib.import_module('vmon.props.{prop.lower()}')\n"
        f"w = json.load(open({path!r}))\n"
        f"rec = core.Recorder({prop!r}, 'replay', w.get('seed', 0), {{}})\n"
        "mod.replay(w, rec)\n"
        "print(json.dumps(core.jsonable(rec.violations), indent=1, ensure_ascii=True)[:4000])\n"
        "sys.exit(1 if rec.violations else 0)\n"
    )
    p = subprocess.run([PY, "-c", code], env=env, cwd=VERIF)
    if p.returncode == 1:
        print(f"VIOLATION property={prop} replay={path}")
    return p.returncode
