"""Workload generators (W1-W4 of DESIGN.md). Everything is seeded by the
caller's random.Random; nothing here looks at the clock."""
import datetime
import re

from eyecite.regexes import STOP_WORDS
from eyecite.tokenizers import EDITIONS_LOOKUP, EXTRACTORS, NOMINATIVE_REPORTER_NAMES
from eyecite.utils import DISALLOWED_NAMES
from eyecite.models import CitationToken

YEARNOW = datetime.date.today().year
PRE = "(?:^|[^a-zA-Z0-9])("
POST = ")(?:[^a-zA-Z0-9]|$)"


class _DB:
    """Strings derived from the installed reporters-db / courts-db."""

    def __init__(self):
        self._done = False

    def _load(self):
        if self._done:
            return
        from courts_db import courts
        from reporters_db import JOURNALS, REPORTERS

        std = []
        pairs = []  # (canonical edition name, variation) for which the standard 'vol R page' form is valid
        custom_pairs = []  # (canonical edition name, variation) of editions with custom templates only
        for key, cl in REPORTERS.items():
            for src in cl:
                for en, ed in src["editions"].items():
                    templates = ed.get("regexes") or ["$full_cite"]
                    if templates == ["$full_cite"]:
                        std.append(en)
                    for v, t in src["variations"].items():
                        if t == en:
                            if templates == ["$full_cite"]:
                                std.append(v)
                            if "$full_cite" in templates:
                                pairs.append((en, v))
                            else:
                                custom_pairs.append((en, v))
        self.custom_pairs = sorted(set(custom_pairs))
        # independent view of the database: every (reporter cluster, edition) a string is related to,
        # as an edition name or as a variation, whatever the template
        related = {}
        for key, cl in REPORTERS.items():
            for ci, src in enumerate(cl):
                for en in src["editions"]:
                    related.setdefault(en, set()).add((key, ci, en))
                for v, t in src["variations"].items():
                    related.setdefault(v, set()).add((key, ci, t))
        self.related = related
        self.std_all = sorted(set(std))
        # strings that can be written in prose without regex-special surprises
        # ('T.C. at' is listed as a variation of 'T.C.': written out it is literally the short form, so
        # reporter strings ending in the short-form marker are not usable as a *full* citation's reporter)
        self.std = [s for s in self.std_all if re.fullmatch(r"[A-Za-z0-9 .&'()\-]+", s) and not s.endswith(" at")]
        self.pairs = sorted(set(pairs))
        self.journals = sorted(k for k, v in JOURNALS.items() if not any(s.get("regexes") for s in v))
        self.known = set(EDITIONS_LOOKUP)
        self.multi = sorted(k for k in self.std if len(set(EDITIONS_LOOKUP[k])) > 1)
        self.courts = sorted(
            set(
                c["citation_string"]
                for c in courts
                if c["citation_string"]
                # parenthetical-safe: no parenthesis/bracket, no 4-digit run (would read as a year),
                # no leading/trailing blank; non-ASCII punctuation (Att\u2019y) is fine
                and not re.search(r"[()\[\]]|\d{4}|^\s|\s$|\s\s", c["citation_string"])
            )
        )
        self.cit_extractors = [
            e for e in EXTRACTORS
            if getattr(e.constructor, "__self__", None) is CitationToken
        ]
        self.law_extractors = [
            e for e in self.cit_extractors
            if not e.extra["short"]
            and any(x.reporter.source == "laws"
                    for x in list(e.extra["exact_editions"]) + list(e.extra["variation_editions"]))
        ]
        self._done = True

    def __getattr__(self, k):
        if k.startswith("_"):
            raise AttributeError(k)
        self._load()
        return self.__dict__[k]


DB = _DB()

SYL = ["ba", "ren", "dor", "vil", "kes", "mun", "tar", "pol", "gri", "zan", "hov",
       "lek", "wim", "quor", "dax", "fen", "yol", "bru", "sna", "pik"]


def word(rng, used=(), nsyl=None):
    """Synthetic capitalised word that is not a reporter string, stop word or
    disallowed name, and shares no substring relation with `used`."""
    lowered = {d.lower() for d in DISALLOWED_NAMES}
    while True:
        w = "".join(rng.choice(SYL) for _ in range(nsyl or rng.randint(2, 3))).capitalize()
        if w in DB.known or w.lower() in STOP_WORDS or w.lower() in lowered:
            continue
        if any(w in u or u in w for u in used):
            continue
        return w


def party(rng):
    ws = [word(rng) for _ in range(rng.randint(1, 3))]
    if rng.random() < 0.3:
        ws.append(rng.choice(["Inc.", "Co.", "Corp.", "LLC", "Ltd."]))
    return " ".join(ws)


def pinshape(rng, p):
    """Pin-cite shapes of the documented grammar."""
    return rng.choice([
        f"{p}", f"{p}-{p + rng.randint(1, 9)}", f"{p}, {p + 3}", f"{p}-{p + 2}, {p + 5}",
        f"{p}, n. {rng.randint(1, 9)}", f"{p}:{rng.randint(1, 30)}", f"*{p}",
        f"{p}, & n. {rng.randint(1, 9)}", f"p. {p}", f"¶ {p}", f"{p}, nn. 3-4", f"pp. {p}-{p + 2}",
        f"{p}:{rng.randint(1, 20)}-{rng.randint(21, 40)}", f"{p}:{rng.randint(1, 30)}-{p + 1}:{rng.randint(1, 30)}",
        f"{p}, note {rng.randint(1, 9)}", f"{p}, fn. {rng.randint(1, 9)}", f"**{p}", f"{p}, pp. {p + 1}-{p + 2}",
    ])


def paren(rng):
    ws = " ".join(word(rng).lower() for _ in range(rng.randint(1, 4)))
    r = rng.random()
    if r < 0.2:
        return f"holding that {ws} (citing {word(rng)})"
    if r < 0.4:
        # explanatory text with numbers in it (never at its beginning: a parenthetical that *starts* with a
        # year is read as the year parenthetical)
        return rng.choice([f"overruled in part in {rng.randint(1900, 2020)}", f"applying the {rng.randint(1900, 2020)} Act to {ws}",
                           f"{ws} {rng.randint(2, 9)}-{rng.randint(0, 4)} decision", f"citing {rng.randint(10, 99)} cases",
                           f"noting that {ws} since {rng.randint(1800, 1999)}", f"en banc, {rng.randint(10000, 99999)} words"])
    return rng.choice(["holding that ", "overruling ", "noting ", ""]) + ws


# ---------------------------------------------------------------------
# dense / hostile documents (W2 + W3 + W4)

CUR_REPS = ["U.S.", "U. S.", "S. Ct.", "S.Ct.", "F.2d", "F.3d", "F. Supp. 2d",
            "Cal. App. 4th", "Wash.", "Wn.2d", "A.2d", "N.E.", "Mass.", "P.R.",
            "Cranch", "Thompson", "Miles", "Johnson", "Ill. App. 3d", "L. Ed. 2d",
            "Minn. L. Rev.", "Harv. L. Rev.", "Cooke", "Holmes", "Chase", "Bee",
            "Deady", "Taney", "Olcott", "Gilmer", "F.", "F. Supp.", "Cal.", "Cal. 2d",
            "N.Y.S.2d", "N.Y.", "T.C.", "B.R.", "WL", "Ohio St.", "Ohio St. 3d"]
CUR_NAMES = ["Foo", "Bar", "Smith", "Jones", "Thompson", "Cooke", "Holmes", "Chase",
             "Bee", "United States", "State", "Acme Corp.", "Roe", "Wade", "Doe",
             "Twombly", "Bell Atlantic Corp.", "In re Gault", "X", "A", "B",
             "De la Cruz", "O'Brien", "Mar. Overseas Corp.", "Deady", "Taney",
             "Olcott", "Gilmer", "Halper", "Nobelman", "Theatre Enterprises"]
HOSTILE = {
    "nbsp": [" ", " ", "　", " ", "\u0085", " "],
    "quotes": ["“", "”", "’", "—", "–", "é", "ü", "…", "ﬁ", "½", "™", "№", "ǆ"],
    "signs": ["§", "¶", "§§", "§x", "x§"],
    "ctrl": ["\x00", "\x1f", "\x7f", "\r", "\x0b", "\x0c"],
    "digits": ["١٩٩٩", "٣", "１２", "²"],
    "fold": ["ſ", "K", "ı", "İ"],
    "brackets": ["(", ")", "[", "]", "((", "))", "[(", ")]"],
    "underscore": ["_", "___", "__"],
    "ws": ["\n", "\t", "\n\n", "  ", " \n ", "\t\t", "\r\n", "\r\n\r\n"],
    "tags": ["<i>", "</i>", "&amp;", "<b>", "</em>"],
    "dash": ["-", "—", "--"],
    "longnum": ["9" * 21, "1" * 400, "0" * 50, "7" * 4400],   # 4400 > CPython's 4300-digit int() limit
    "star": ["*", "**", "\\"],
    "invisible": ["\u00ad", "\u200b", "\u200d", "\ufeff", "\u2060"],   # soft hyphen, zero-width space/joiner, BOM, word joiner
    "surrogate": ["\ud800", "\udfff"],
    "astral": ["\U00010000", "\U0001f600"],
    "literal": ["eyecite", "supra", "Id.", "ibid.", "v.", "at", "citing", "see"],
}
HOSTILE_CLASSES = sorted(HOSTILE)


def num(rng):
    return str(rng.choice([1, 2, 5, 12, 100, 550, 1999, 2004, 12345, rng.randint(1, 999)]))


def rep(rng):
    return rng.choice(CUR_REPS) if rng.random() < 0.8 else rng.choice(DB.std)


_recent = []     # party names already written in the current document


def name(rng):
    n = rng.choice(CUR_NAMES) if rng.random() < 0.8 else word(rng)
    _recent.append(n)
    del _recent[:-12]
    return n


def ref_name(rng):
    """A name for a later reference: usually one that an earlier citation of this document carries."""
    if _recent and rng.random() < 0.7:
        n = rng.choice(_recent)
        return n.split()[-1] if (" " in n and rng.random() < 0.3) else n
    return name(rng)


def yearish(rng):
    """what may stand where a year is expected"""
    return rng.choice(["1999", "2005", "1850", "2100", "1599", "1993-94", "1993\u201394", "1993-1994", "\uff11\uff19\uff19\uff19",
                       "19999", "0000", "1999a", str(YEARNOW + 1)])


def full_frag(rng):
    p = name(rng)
    if rng.random() < 0.08:
        # year between the name and the reporter
        return f"{p} v. {name(rng)} ({yearish(rng)}) {num(rng)} {rep(rng)} {num(rng)}" + rng.choice(["", ", " + num(rng)])
    d = p if rng.random() < 0.05 else name(rng)          # same name on both sides ("Jones v. Jones")
    s = p + rng.choice([" v. ", " v ", " vs. ", " v. "]) + d + rng.choice([", ", " ", ",  ", ", "])
    s += f"{num(rng)} {rep(rng)} {num(rng)}"
    if rng.random() < 0.4:
        s += ", " + num(rng)
    if rng.random() < 0.3:
        s += f", {num(rng)} {rep(rng)} {num(rng)}"
    if rng.random() < 0.6:
        s += " (" + rng.choice(["", "4th Cir. ", "Pa. ", "D. Mass. "]) + yearish(rng) + ")"
    if rng.random() < 0.08:
        # a parenthetical that starts with a year (read as a year parenthetical) and a further one after it
        s += f" ({rng.randint(1990, 2020)} {rng.choice(['Supp.', 'ed.', 'amendment'])})" + rng.choice(["", " (holding x)", " (en banc) (per curiam)"])
    if rng.random() < 0.3:
        s += " (" + rng.choice(["holding x", "overruling Foo (Bar, J.)", "citing 1 U.S. 1",
                                 "quoting Roe, 410 U.S. at 120",
                                 f"quoting {name(rng)}, {num(rng)} {rep(rng)} {num(rng)}; {name(rng)} at {num(rng)}, {num(rng)} {rep(rng)} {num(rng)}",
                                 f"citing {name(rng)} at {num(rng)} and {name(rng)}, supra, at {num(rng)}",
                                 f"holding that (a) x (quoting {name(rng)} v. {name(rng)}, {num(rng)} {rep(rng)} {num(rng)}) (en banc)"]) + ")"
    return s


def member(rng, short=None):
    """A validated member of a random citation pattern of the installed database (full or short
    form, including reporters, laws and journals with custom templates: 'NY Slip Op 51797(U)', ...)."""
    from vmon.rxgen import sample
    for _ in range(8):
        e = rng.choice(DB.cit_extractors)
        if short is not None and bool(e.extra["short"]) != short:
            continue
        if not (e.regex.startswith(PRE) and e.regex.endswith(POST)):
            continue
        body = e.regex[len(PRE):-len(POST)]
        try:
            s = sample(body, rng, e.flags, maxrep=2)
        except Exception:
            continue
        if "\n" not in s and e.compiled_regex.search(s):
            return s
    return "1 U.S. 1"


_midpage = {}


def midpage_member(rng, short=True):
    """A member of a pattern whose matched text continues after the page group
    ('15 at 55 (La.App. 4 Cir. 8/2/17)', '2015-Ohio-1234' style templates)."""
    from vmon.rxgen import sample
    key = bool(short)
    if key not in _midpage:
        found = []
        r0 = __import__("random").Random(4321)
        for e in DB.cit_extractors:
            if bool(e.extra["short"]) != key or not (e.regex.startswith(PRE) and e.regex.endswith(POST)):
                continue
            body = e.regex[len(PRE):-len(POST)]
            try:
                rx = re.compile(body, e.flags)
                core = sample(body, r0, e.flags, maxrep=2)
            except Exception:
                continue
            m = rx.fullmatch(core)
            if m and "page" in rx.groupindex and m.span("page") != (-1, -1) and m.end("page") < len(core):
                found.append((e, body, rx))
        _midpage[key] = found
    if not _midpage[key]:
        return member(rng, short)
    e, body, rx = rng.choice(_midpage[key])
    for _ in range(6):
        try:
            s = sample(body, rng, e.flags, maxrep=2)
        except Exception:
            break
        if rx.fullmatch(s) and "\n" not in s:
            return s
    return member(rng, short)


_punct_page = {}


def punct_page_member(rng, short=True):
    """A member of a pattern whose page may contain punctuation ('BCA at 12,345', '1982-1 Trade Cas. at
    64,689', page-with-letter and 'NY Slip Op 51797(U)' templates), found by probing every pattern."""
    from vmon.rxgen import sample
    key = bool(short)
    if key not in _punct_page:
        found = []
        r0 = __import__("random").Random(12345)
        for e in DB.cit_extractors:
            if bool(e.extra["short"]) != key or not (e.regex.startswith(PRE) and e.regex.endswith(POST)):
                continue
            body = e.regex[len(PRE):-len(POST)]
            try:
                rx = re.compile(body, e.flags)
                core = sample(body, r0, e.flags, maxrep=2)
            except Exception:
                continue
            m = rx.fullmatch(core)
            if not m or "page" not in rx.groupindex or m.span("page") == (-1, -1):
                continue
            a, b = m.span("page")
            for probe in ("12,345", "1.23", "12a", "51797(U)", "12-34"):
                m2 = rx.fullmatch(core[:a] + probe + core[b:])
                if m2 and m2.group("page") == probe:
                    found.append((e, core[:a], core[b:], probe))
        _punct_page[key] = found
    if not _punct_page[key]:
        return member(rng, short)
    e, pre, post, probe = rng.choice(_punct_page[key])
    page = {"12,345": f"{rng.randint(1, 99)},{rng.randint(100, 999)}", "1.23": f"{rng.randint(1, 9)}.{rng.randint(10, 99)}",
            "12a": f"{rng.randint(1, 999)}{rng.choice('abA')}", "51797(U)": f"{rng.randint(1, 99999)}({rng.choice('UA')})",
            "12-34": f"{rng.randint(1, 99)}-{rng.randint(1, 99)}"}[probe]
    return pre + page + post


_year_member = []


def year_group_member(rng):
    """A member of a pattern with a year inside the citation itself ('14 How. Pr. (1857) 10')."""
    from vmon.rxgen import sample
    if not _year_member:
        for e in DB.cit_extractors:
            if e.extra["short"] or not (e.regex.startswith(PRE) and e.regex.endswith(POST)):
                continue
            body = e.regex[len(PRE):-len(POST)]
            try:
                rx = re.compile(body, e.flags)
            except Exception:
                continue
            if "year" in rx.groupindex:
                _year_member.append((e, body, rx))
        _year_member.append(None)
    pool = [x for x in _year_member if x]
    if not pool:
        return member(rng, False)
    e, body, rx = rng.choice(pool)
    for _ in range(6):
        try:
            s = sample(body, rng, e.flags, maxrep=2, ascii_only=True)
        except Exception:
            break
        if rx.fullmatch(s) and "\n" not in s:
            return s
    return member(rng, False)


_hostile_member = {}
# probe character -> the characters of the same acceptance class used when generating
HOSTILE_GROUP_CHARS = {"²": ["²", "①", "¹", "⁵"],          # \w only: str.isdigit() is True, int() raises
                       "٣": ["٣", "５", "０", "߁"],          # \d: decimal digits of other scripts, int() accepts
                       "é": ["é", "Ⅷ", "ⅰ", "ß"],          # \w only: letters / numerals that are not digits
                       "_": ["_", "__"]}


def hostile_member(rng, short=False):
    """A member of a citation pattern whose volume or page group contains a character that the pattern's
    Unicode-aware classes accept but that is not an ASCII digit or letter ('100 N.Y.S.2d 12²'), found
    by probing every pattern: substitute or append inside the group, keep what still matches as a whole
    with that group changed. Stratified by acceptance class so that the rare ones are drawn as often."""
    from vmon.rxgen import sample
    key = bool(short)
    if key not in _hostile_member:
        found = {}
        r0 = __import__("random").Random(777)
        for e in DB.cit_extractors:
            if bool(e.extra["short"]) != key or not (e.regex.startswith(PRE) and e.regex.endswith(POST)):
                continue
            body = e.regex[len(PRE):-len(POST)]
            try:
                rx = re.compile(body, e.flags)
                core = sample(body, r0, e.flags, maxrep=2, ascii_only=True)
            except Exception:
                continue
            m = rx.fullmatch(core)
            if not m:
                continue
            for g in ("page", "volume"):
                if g not in rx.groupindex or m.span(g) == (-1, -1):
                    continue
                a, b = m.span(g)
                for ch in HOSTILE_GROUP_CHARS:
                    for how, cand in (("append", core[:b] + ch + core[b:]), ("last", core[:b - 1] + ch + core[b:]),
                                      ("first", core[:a] + ch + core[a:]), ("all", core[:a] + ch * (b - a) + core[b:])):
                        m2 = rx.fullmatch(cand)
                        if m2 and m2.group(g) != m.group(g) and ch in (m2.group(g) or ""):
                            found.setdefault((ch, g), []).append((e, rx, core, how))
                            break
        _hostile_member[key] = found
    found = _hostile_member[key]
    if not found:
        return member(rng, short)
    ch0, g = rng.choice(sorted(found))
    e, rx, core, how = rng.choice(found[(ch0, g)])
    m = rx.fullmatch(core)
    a, b = m.span(g)
    for _ in range(8):
        ch = rng.choice(HOSTILE_GROUP_CHARS[ch0])
        cand = {"append": core[:b] + ch + core[b:], "last": core[:b - 1] + ch + core[b:],
                "first": core[:a] + ch + core[a:], "all": core[:a] + ch * (b - a) + core[b:]}[
                    how if rng.random() < 0.7 else rng.choice(["append", "last", "first", "all"])]
        m2 = rx.fullmatch(cand)
        if m2 and ch in (m2.group(g) or ""):
            return cand
    return core


def hostile_pair(rng, short=False):
    """Two members of one pattern that differ only in the non-ASCII characters of one group
    ('1 U.S. ١٢' / '1 U.S. ٣٤'): different citations whose ASCII projections coincide."""
    hostile_member(rng, short)          # builds the table
    found = _hostile_member[bool(short)]
    if not found:
        return None
    ch0, g = rng.choice(sorted(found))
    e, rx, core, how = rng.choice(found[(ch0, g)])
    m = rx.fullmatch(core)
    a, b = m.span(g)
    pool = HOSTILE_GROUP_CHARS[ch0]
    if len(pool) < 2:
        return None
    c1, c2 = rng.sample(pool, 2)
    n = max(1, b - a)
    out = []
    for ch in (c1, c2):
        cand = {"append": core[:b] + ch + core[b:], "last": core[:b - 1] + ch + core[b:],
                "first": core[:a] + ch + core[a:], "all": core[:a] + ch * n + core[b:]}[how]
        m2 = rx.fullmatch(cand)
        if not (m2 and ch in (m2.group(g) or "")):
            return None
        out.append(cand)
    return tuple(out)


FOLD_TWINS = {"s": "ſ", "i": "ı", "I": "İ", "k": "K", "K": "K"}


def foldvar(rng, w, p=0.06):
    """Now and then a spelling of a keyword with one of the non-ASCII characters that re.IGNORECASE equates
    with an ASCII letter ('ſupra', 'İd.', 'ıbid.')."""
    if rng.random() >= p:
        return w
    idx = [i for i, ch in enumerate(w) if ch in FOLD_TWINS]
    if not idx:
        return w
    i = rng.choice(idx)
    return w[:i] + FOLD_TWINS[w[i]] + w[i + 1:]


def frag(rng):
    r = rng.random()
    if r < 0.02:
        m = (punct_page_member if rng.random() < 0.6 else midpage_member)(rng, short=rng.random() < 0.5)
        return rng.choice(["", name(rng) + ", "]) + m + rng.choice([" because", " and again", ".", "; see", ", 7", " (holding x)", ". Id. at 3"])
    if r < 0.06:
        m = member(rng) if rng.random() < 0.6 else year_group_member(rng) if rng.random() < 0.25 else hostile_member(rng, short=rng.random() < 0.3)
        return rng.choice(["", name(rng) + " v. " + name(rng) + ", ", name(rng) + ", "]) + m + rng.choice(
            ["", " (1999)", ", 5", ". Id. at 3", " (1999). Id. at " + num(rng), ". Id., at 12-13", "; " + name(rng) + ", supra, at 5"])
    if r < 0.28:
        return full_frag(rng)
    if r < 0.36:
        return f"{num(rng)} {rep(rng)} {num(rng)}"
    if r < 0.46:
        return f"{name(rng)}{rng.choice([', ', ', ', ' , ', ' '])}{num(rng)} {rep(rng)}{rng.choice(['', ','])} at {num(rng)}"
    if r < 0.50:
        return f"{name(rng)}, {num(rng)} {rep(rng)} at {num(rng)}, {num(rng)} {rep(rng)} {num(rng)}"
    if r < 0.57:
        return f"{rng.choice([ref_name(rng)] * 9 + ['...', '--', '…', '.-.'])}{rng.choice([', ', ', ', ' , ', ' '])}{rng.choice(['', num(rng) + ' '])}{foldvar(rng, 'supra')}{rng.choice([', at ' + num(rng), '', ',', ' at ' + num(rng), ' note ' + num(rng) + ', at ' + num(rng), ' note ' + num(rng), ', n. ' + num(rng) + ', at ' + num(rng)])}"
    if r < 0.65:
        return foldvar(rng, rng.choice(["Id.", "Id. at " + num(rng), "Ibid.", "id., at " + num(rng) + "-" + num(rng),
                                        "Id. at " + num(rng) + " (noting x)", "Id., at *" + num(rng),
                                        # a pin cite whose digits are at once the volume of a following supra
                                        "id. at " + num(rng) + " supra note " + num(rng), "Id. at " + num(rng) + " supra"]))
    if r < 0.71:
        return rng.choice(["42 U.S.C. § 1983", "Mass. Gen. Laws ch. 1, § 2 (West 1999)", "§ 5", "§§ 1-2",
                           "29 C.F.R. § 1910.1200(a)(2)", "Fla. Stat. § 1.01 (2020)",
                           "1 Stat. 2", "Pub. L. No. 94-553", "18 U.S.C. § 1961 et seq. and", "Mass. Gen. Laws ch. 1, § 2(a) and (d) of", "42 U.S.C. §1983(b)", "§42 U.S.C. § 1983", "29 C.F.R. §1910.1200(g)(8)"])
    if r < 0.73:
        return f"{rng.choice(['', 'In ', 'As '])}{ref_name(rng)} at {num(rng)}"
    if r < 0.75:
        # a multi-word name written with different white space than in its full citation
        multi = [x for x in _recent if " " in x]
        n = rng.choice(multi) if multi else rng.choice(["Bell Atlantic Corp.", "Theatre Enterprises", "Mar. Overseas Corp.", "De la Cruz", "Acme Corp."])
        return f"{n.replace(' ', rng.choice(['  ', chr(10), ' ' + chr(10), chr(9)]))} at {num(rng)}"
    if r < 0.77:
        # a reference whose pin-cite digits are also the volume of a following citation
        return f"{ref_name(rng)} at {num(rng)} {rep(rng)}{rng.choice([',', ''])} {num(rng)}"
    if r < 0.82:
        return f"In re {name(rng)} ({yearish(rng)}) {num(rng)} {rep(rng)} {num(rng)}"
    if r < 0.86:
        return f"{num(rng)} {rng.choice(['Minn. L. Rev.', 'Harv. L. Rev.', 'Yale L.J.'])} {rng.choice([num(rng), '___'])}, {num(rng)} ({rng.choice(['1990', '2020'])})"
    if r < 0.89:
        return f"{name(rng)} v. {name(rng)}, {num(rng)} {rep(rng)} ___ ({rng.choice(['2018', '1999'])})"
    return rng.choice(["the court held that", "see also", "citing", "cert. denied", "and",
                       "because it is", "the rule", ";", ".", "(", ")", "[", "]", "\n", "\n\n",
                       "  ", "\t", "aff'd", "rev'd on other grounds", "See", "But see"])


def mutate(s, rng, k=None, classes=None, rec=None):
    """Character-level mutation: hostile insertion, deletion, duplication,
    transposition."""
    for _ in range(k if k is not None else rng.randint(1, 4)):
        i = rng.randrange(len(s) + 1)
        r = rng.random()
        if r < 0.55:
            cls = rng.choice(classes or HOSTILE_CLASSES)
            s = s[:i] + rng.choice(HOSTILE[cls]) + s[i:]
            if rec is not None:
                rec.count("hostile:" + cls)
        elif r < 0.75 and s:
            s = s[:i] + s[i + 1:]
        elif r < 0.9:
            s = s[:i] + s[i:i + 3] + s[i:]
        elif i + 1 < len(s):
            s = s[:i] + s[i + 1] + s[i] + s[i + 2:]
    return s


def dense_doc(rng, hostile=0.5, rec=None, classes=None, maxfrag=8):
    del _recent[:]
    parts = [frag(rng) for _ in range(rng.randint(1, maxfrag))]
    seps = [rng.choice([" ", ". ", "; ", ", ", " ", "\n", " (", ") ", "\n\n", " Id. ", "\r\n", ".\r\n"]) for _ in parts]
    if rng.random() < 0.25:
        seps[-1] = ""            # the document ends with the last character of a citation
    s = "".join(p + q for p, q in zip(parts, seps))
    if rng.random() < hostile:
        s = mutate(s, rng, classes=classes, rec=rec)
    return s


def ascii_ws_domain(text):
    """C14 domain predicate: Python's unicode-aware \\s, \\d, re.I and
    Hyperscan's byte classes coincide on this text."""
    for ch in text:
        if ord(ch) < 128:
            continue
        if ch.isspace() or ch.isdigit() or ch.isdecimal() or ch.isnumeric():
            return False
        if ch in "ſKıİ":
            return False
        if ch in "\x1c\x1d\x1e\x1f\x85":
            return False
    # ASCII control chars that str.isspace() counts but byte-level \s may not
    return not any(c in text for c in "\x1c\x1d\x1e\x1f")


# ---------------------------------------------------------------------
# W5: strings harvested from the repository's own tests

def test_corpus():
    import ast
    import glob
    import os

    out = []
    repo = os.environ.get("VMON_REPO", "/repo")
    for p in sorted(glob.glob(os.path.join(repo, "tests", "*.py"))):
        try:
            tree = ast.parse(open(p, encoding="utf8").read())
        except Exception:
            continue
        for node in ast.walk(tree):
            if isinstance(node, ast.Constant) and isinstance(node.value, str) and len(node.value) >= 6:
                out.append(node.value)
    return sorted(set(out))


# ---------------------------------------------------------------------
# W6(b): marked-up legal text

MK_NAMES = ["May", "Will", "Mark", "Halper", "Bae", "Twombly", "Shalala", "Nobelman", "Mancari", "Morton", "Wingler",
            "Amick", "Zorbex", "Quimby", "Smith", "State", "United States",
            "Bell Atlantic Corp.", "Liberty Mut. Ins. Co.", "Lissner", "Test Corp", "Roe"]
MK_REPS = ["U.S.", "U. S.", "S.Ct.", "F.3d", "F.2d", "A.2d", "Mass.", "L.Ed.2d"]


def _it(rng, s):
    t = rng.choice(["i", "em"])
    if rng.random() < 0.15:
        s = rng.choice([" ", "\n "]) + s
    return f"<{t}>{s}</{t}>"


def mk_full(rng, seen=None):
    P, D = rng.choice(MK_NAMES), rng.choice(MK_NAMES)
    if rng.random() < 0.3:
        P = word(rng)
    if rng.random() < 0.3:
        D = word(rng)
    style = rng.random()
    vol, page = rng.randint(1, 600), rng.randint(1, 900)
    cite = f"{vol} {rng.choice(MK_REPS)} {page}"
    if rng.random() < 0.4:
        cite += f", {page + 3}"
    if rng.random() < 0.3:      # parallel citation(s) sharing the case name
        cite += f", {rng.randint(1, 600)} {rng.choice(MK_REPS)} {rng.randint(1, 900)}"
        if rng.random() < 0.3:
            cite += f", {rng.randint(1, 600)} {rng.choice(MK_REPS)} {rng.randint(1, 900)}"
    cite += f" ({rng.choice(['', '7th Cir. ', 'Pa. '])}{rng.randint(1900, 2020)})"
    if rng.random() < 0.25:
        # an explanatory parenthetical that itself cites by (emphasised) party name: the names of this very
        # citation or of an earlier one, inside this citation's full span
        n = rng.choice([P, D] + list(seen or []))
        if " " in n and rng.random() < 0.3:
            n = n.split()[-1]
        inner = rng.choice([_it(rng, n) + f", {rng.randint(1, 600)} {rng.choice(MK_REPS)} at {rng.randint(1, 900)}",
                            _it(rng, n + ",") + f" {rng.randint(1, 600)} {rng.choice(MK_REPS)}, at {rng.randint(1, 900)}",
                            _it(rng, n) + f", supra, at {rng.randint(1, 900)}",
                            _it(rng, n) + f" at {rng.randint(1, 900)}",
                            _it(rng, n + " v. " + rng.choice(MK_NAMES)) + f", {rng.randint(1, 600)} {rng.choice(MK_REPS)} {rng.randint(1, 900)}"])
        cite += " (" + rng.choice(["quoting ", "citing ", "discussing ", ""]) + inner + ")"
    if style < 0.4:
        nm = _it(rng, f"{P} v. {D},")
    elif style < 0.7:
        nm = _it(rng, P + " ") + "v. " + _it(rng, D + ", ")
    elif style < 0.85:
        nm = f"{P} v. {D},"
    else:
        nm = _it(rng, f"{P} v. {D}") + ","
    return f"{nm} {cite}", (P, D)


def mk_ref(rng, n):
    r = rng.random()
    if " " in n and rng.random() < 0.35:
        n = n.split()[-1]          # shorthand by the last word of the name ("Corp.", "Co.", "Enterprises")
    if r < 0.12:
        # an emphasised ordinary word that equals a party name only when case is ignored
        w = rng.choice([n.lower(), n.upper(), n.swapcase()])
        return "the court " + _it(rng, w) + " decide, and " + _it(rng, "not") + " otherwise"
    if r < 0.4:
        return "In " + _it(rng, n + rng.choice([",", "", " ", ".", ";", ":"])) + " the court held"
    if r < 0.6:
        return _it(rng, n) + f" at {rng.randint(1, 900)}"
    if r < 0.7:
        return n + f" at {rng.randint(1, 900)}"
    if r < 0.8:
        return _it(rng, n + ", supra") + f", at {rng.randint(1, 900)}"
    if r < 0.9:
        return _it(rng, n + ",") + f" {rng.randint(1, 600)} U.S., at {rng.randint(1, 900)}"
    return _it(rng, "Id.") + f" at {rng.randint(1, 900)}"


def markup_doc(rng):
    parts, seen = [], []
    for _ in range(rng.randint(1, 6)):
        if rng.random() < 0.08:
            # a full citation introduced by a single name only ('Twombly, 550 U.S. 544'): it has an antecedent
            # guess but no party names; the name is emphasised again later
            n = rng.choice([x for x in MK_NAMES if " " not in x])
            parts.append(f"{n}, {rng.randint(1, 600)} {rng.choice(MK_REPS)} {rng.randint(1, 900)} ({rng.randint(1950, 2020)}). In {_it(rng, n + ',')} the court held; {_it(rng, n)} at {rng.randint(1, 900)}; {n} at {rng.randint(1, 900)}")
            parts.append(". ")
            continue
        if not seen or rng.random() < 0.4:
            f, (P, D) = mk_full(rng, seen)
            parts.append(f)
            seen += [P, D]
        else:
            parts.append(mk_ref(rng, rng.choice(seen)))
        parts.append(rng.choice([". ", "; ", ".</p>\n<p>", " &amp; then ", ".  \n ", " &hellip; ", "&trade;. ", ". \ufb01rst, &frac12; of ",
                                 ". The " + _it(rng, "ex post facto") + " clause. ",
                                 ". <b>Held:</b> ", " &sect; 5. "]))
    return "<p>" + "".join(parts) + "</p>"


MARKUP_STEPS = [["html", "all_whitespace"], ["html", "inline_whitespace"], ["html"],
                ["html", "all_whitespace", "underscores"],
                # 'html' not in first place: the steps apply in the order given
                ["all_whitespace", "html"], ["inline_whitespace", "html", "all_whitespace"], ["underscores", "html"]]


FILLER_WORDS = ["the", "court", "held", "that", "parallel", "conduct", "alone", "does", "not", "suffice", "under",
                "this", "rule", "and", "because", "each", "party", "agreed", "below", "we", "review", "only",
                "for", "plain", "error", "on", "appeal", "from", "a", "final", "order", "of", "district"]


def filler(rng, nchars):
    """Ordinary prose (no special tokens) of about nchars characters."""
    out, n = [], 0
    while n < nchars:
        w = rng.choice(FILLER_WORDS)
        out.append(w)
        n += len(w) + 1
    return " ".join(out)
