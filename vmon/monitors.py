"""Universal monitors: deterministic oracles over one observed execution
(arguments + result). Each returns a list of (monitor_name, observed) pairs;
an empty list means the property held on this execution.

They are used twice: as icontract postconditions on the real functions
(vmon.instrument) so that *every* execution under any workload is checked, and
directly by the drivers at the client boundary."""
import datetime
import re

from eyecite.models import (
    CitationToken,
    FullCaseCitation,
    FullCitation,
    FullJournalCitation,
    FullLawCitation,
    IdCitation,
    ReferenceCitation,
    ResourceCitation,
    ShortCaseCitation,
    SupraCitation,
    Token,
    UnknownCitation,
)

YEARNOW = datetime.date.today().year
PIN_KINDS = (FullCaseCitation, ShortCaseCitation, SupraCitation, IdCitation, ReferenceCitation)
TEXT_FIELDS = ("pin_cite", "year", "plaintiff", "defendant", "antecedent_guess", "extra",
               "publisher", "month", "day", "volume")


def kind(c):
    return type(c).__name__


# ------------------------------------------------------------------ C12
def partition(text, result):
    out = []
    all_tokens, cit_tokens = result
    joined = "".join(str(t) for t in all_tokens)
    if joined != text:
        # locate first divergence
        i = 0
        while i < min(len(joined), len(text)) and joined[i] == text[i]:
            i += 1
        out.append(("C12.concat", dict(at=i, got=joined[i:i + 40], want=text[i:i + 40])))
    last_end = 0
    specials = [t for t in all_tokens if isinstance(t, Token)]
    for t in specials:
        if not (0 <= t.start <= t.end <= len(text)) or text[t.start:t.end] != str(t):
            out.append(("C12.offsets", dict(token=str(t), start=t.start, end=t.end,
                                            at_text=text[max(t.start, 0):max(t.end, 0)][:60])))
        if t.start < last_end:
            out.append(("C12.order", dict(token=str(t), start=t.start, prev_end=last_end)))
        if t.end <= t.start:
            out.append(("C12.empty", dict(token=str(t), start=t.start, end=t.end)))
        last_end = max(last_end, t.end)
    idx = [i for i, t in enumerate(all_tokens) if isinstance(t, Token)]
    got = [(i, id(t)) for i, t in cit_tokens]
    want = [(i, id(all_tokens[i])) for i in idx]
    if got != want:
        out.append(("C12.index", dict(got=[i for i, _ in got][:20], want=idx[:20])))
    return out


# ------------------------------------------------------------------ C02
def offsets(text, cs):
    out = []
    n = len(text)
    for c in cs:
        s0, s1 = c.span()
        f0, f1 = c.full_span()
        p0, p1 = c.span_with_pincite()
        info = dict(kind=kind(c), span=(s0, s1), full=(f0, f1), pin=(p0, p1), n=n,
                    matched=c.matched_text())
        if not (0 <= f0 <= s0 <= s1 <= f1 <= n):
            out.append(("C02.ineq", info))
            continue
        if not text[s0:s1].startswith(c.matched_text()):
            out.append(("C02.slice", dict(info, at_span=text[s0:s1][:80])))
        if not (p0 <= s0 and s1 <= p1 and 0 <= p0 and p1 <= n):
            out.append(("C02.pinspan", info))
        elif isinstance(c, PIN_KINDS) and c.metadata.pin_cite:
            if c.metadata.pin_cite not in text[p0:p1]:
                out.append(("C02.pintext", dict(info, pin_cite=c.metadata.pin_cite,
                                                at_pin=text[p0:p1][:80])))
    return out


# ------------------------------------------------------------------ C03
def order(cs):
    out = []
    prev = None
    for c in cs:
        s = c.span()
        if prev is not None:
            if s == prev:
                out.append(("C03.duplicate", dict(span=s, kind=kind(c))))
            elif s[0] < prev[1]:
                out.append(("C03.order", dict(prev=prev, span=s, kind=kind(c))))
        prev = s
    return out


# ------------------------------------------------------------------ C17
def metadata_extent(text, cs):
    out = []
    n = len(text)
    for c in cs:
        f0, f1 = c.full_span()
        if not (0 <= f0 <= f1 <= n):
            continue  # C02's business
        own = text[f0:f1]
        joint = None
        fields = TEXT_FIELDS + (("parenthetical",) if isinstance(c, FullCitation) else ())
        for k in fields:
            v = getattr(c.metadata, k, None)
            if not v or not isinstance(v, str):
                continue
            if v in own:
                continue
            if joint is None:
                j1 = max(x.full_span()[1] for x in cs if x.full_span()[0] == f0)
                joint = text[f0:min(j1, n)]
            if v not in joint:
                out.append(("C17." + k, dict(kind=kind(c), field=k, value=v, full=(f0, f1),
                                             extent=own[:120], matched=c.matched_text())))
    return out


# ------------------------------------------------------------------ C18
def includes_year(e, y):
    return (y <= YEARNOW and (e.start is None or e.start.year <= y)
            and (e.end is None or e.end.year >= y))


def year_edition(cs):
    out = []
    seen_full_starts = set()
    for c in cs:
        parallel = False
        if isinstance(c, FullCaseCitation):
            fs = c.full_span_start
            parallel = fs is not None and fs in seen_full_starts
            if fs is not None:
                seen_full_starts.add(fs)
        if not isinstance(c, ResourceCitation):
            continue
        info = dict(kind=kind(c), matched=c.matched_text(), year=c.year, text_year=c.metadata.year)
        if c.year is not None:
            ty = c.metadata.year
            if not (1600 <= c.year <= YEARNOW + 1):
                out.append(("C18.year_range", info))
            if not ty or not re.match(r"\d{4}", ty) or int(ty[:4]) != c.year:
                out.append(("C18.year_text", info))
        cand = list(c.exact_editions) or list(c.variation_editions)
        g = c.edition_guess
        info["candidates"] = [e.short_name for e in cand]
        info["guess"] = g.short_name if g else None
        if g is not None and not any(g is e or g == e for e in cand):
            out.append(("C18.guess_not_candidate", info))
        if len(set(cand)) == 1 and g is None:
            out.append(("C18.single_no_guess", info))
        if len(set(cand)) > 1 and g is not None and not parallel:
            if c.year is None:
                out.append(("C18.guess_without_year", info))
            else:
                ok = {e for e in cand if includes_year(e, c.year)}
                if ok != {g}:
                    out.append(("C18.guess_not_unique_by_year",
                                dict(info, compatible=[e.short_name for e in ok])))
    return out


# ------------------------------------------------------------------ serialisation
def ser_edition(e):
    return (e.short_name, e.reporter.short_name, e.reporter.source,
            str(e.start)[:10], str(e.end)[:10])


def ser(c, with_hash=False):
    """Value serialisation of a citation (kinds, spans, groups, metadata,
    ordered candidate editions, guessed edition)."""
    d = dict(
        kind=kind(c),
        span=c.span(),
        full_span=c.full_span(),
        pin_span=c.span_with_pincite(),
        matched=c.matched_text(),
        groups=sorted((k, v) for k, v in c.groups.items()),
        metadata=sorted((k, v) for k, v in c.metadata.__dict__.items()),
    )
    if isinstance(c, ResourceCitation):
        d["year"] = c.year
        d["exact"] = [ser_edition(e) for e in c.exact_editions]
        d["variation"] = [ser_edition(e) for e in c.variation_editions]
        d["guess"] = ser_edition(c.edition_guess) if c.edition_guess else None
    if with_hash and not isinstance(c, (IdCitation, UnknownCitation)) and not (
            isinstance(c, (FullCaseCitation, ShortCaseCitation)) and c.groups.get("page") is None):
        d["hash"] = hash(c)
    return d


def ser_token(t):
    d = dict(kind=type(t).__name__, start=t.start, end=t.end, data=str(t),
             groups=sorted((k, v) for k, v in t.groups.items()))
    if isinstance(t, CitationToken):
        d["exact"] = [ser_edition(e) for e in t.exact_editions]
        d["variation"] = [ser_edition(e) for e in t.variation_editions]
        d["short"] = t.short
    return d
