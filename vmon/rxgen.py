"""Sample strings from a Python `re` pattern by walking its parse tree.
Every sample is validated by the caller against the real compiled regex."""
import re, random
try:
    import re._parser as sre_parse, re._constants as sre_c
except ImportError:
    import sre_parse, sre_constants as sre_c

ASCII_POOL = [chr(i) for i in range(32,127)]
def _in_chars(items, rng, flags, ascii_only=False):
    neg=False; pos=[]
    cats=[]
    for op,av in items:
        if op is sre_c.NEGATE: neg=True
        elif op is sre_c.LITERAL: pos.append(chr(av))
        elif op is sre_c.RANGE: pos.extend(chr(c) for c in range(av[0], av[1]+1))
        elif op is sre_c.CATEGORY: cats.append(av)
    def catmatch(ch):
        for c in cats:
            if c is sre_c.CATEGORY_DIGIT and ch.isdigit(): return True
            if c is sre_c.CATEGORY_SPACE and ch.isspace(): return True
            if c is sre_c.CATEGORY_WORD and (ch.isalnum() or ch=="_"): return True
            if c is sre_c.CATEGORY_NOT_DIGIT and not ch.isdigit(): return True
            if c is sre_c.CATEGORY_NOT_SPACE and not ch.isspace(): return True
            if c is sre_c.CATEGORY_NOT_WORD and not (ch.isalnum() or ch=="_"): return True
        return False
    if not neg:
        pool=list(pos)
        if cats: pool += [ch for ch in ASCII_POOL if catmatch(ch)]
        return rng.choice(pool)
    pool=[ch for ch in ASCII_POOL+(["\n"] if ascii_only else ["\n","§","é","“"]) if ch not in pos and not catmatch(ch)]
    return rng.choice(pool)

def sample(pattern, rng, flags=0, maxrep=3, ascii_only=False):
    tree = sre_parse.parse(pattern, flags)
    out=[]
    def cat_char(av):
        if av is sre_c.CATEGORY_DIGIT: return rng.choice("0123456789")
        if av is sre_c.CATEGORY_SPACE: return rng.choice(" \t\n")
        if av is sre_c.CATEGORY_WORD: return rng.choice("abcXYZ019_")
        if av is sre_c.CATEGORY_NOT_SPACE: return rng.choice("aZ9.,;" if ascii_only else "aZ9.,;§")
        if av is sre_c.CATEGORY_NOT_DIGIT: return rng.choice("aZ .,")
        if av is sre_c.CATEGORY_NOT_WORD: return rng.choice(" .,;-")
        raise NotImplementedError(av)
    def walk(seq):
        for op,av in seq:
            if op is sre_c.LITERAL:
                ch=chr(av)
                if flags & re.I and rng.random()<0.3: ch=ch.swapcase()
                out.append(ch)
            elif op is sre_c.NOT_LITERAL:
                out.append(rng.choice([c for c in "aZ 9.," if c!=chr(av)]))
            elif op is sre_c.ANY: out.append(rng.choice("aZ9 .," if ascii_only else "aZ9 .,§"))
            elif op is sre_c.IN: out.append(_in_chars(av, rng, flags, ascii_only))
            elif op is sre_c.CATEGORY: out.append(cat_char(av))
            elif op is sre_c.BRANCH:
                alts=av[1]
                # avoid anchors unless positionally valid
                ok=[]
                for a in alts:
                    if len(a)==1 and a[0][0] is sre_c.AT:
                        if a[0][1] in (sre_c.AT_BEGINNING, sre_c.AT_BEGINNING_STRING) and out: continue
                        if a[0][1] in (sre_c.AT_END, sre_c.AT_END_STRING): 
                            ok.append(a); continue
                    ok.append(a)
                walk(rng.choice(ok))
            elif op is sre_c.SUBPATTERN: walk(av[3])
            elif op in (sre_c.MAX_REPEAT, sre_c.MIN_REPEAT):
                lo,hi,sub=av
                hi=min(hi, lo+maxrep) if hi is not sre_c.MAXREPEAT else lo+maxrep
                for _ in range(rng.randint(lo,hi)): walk(sub)
            elif op is sre_c.AT: pass
            elif op is sre_c.ASSERT or op is sre_c.ASSERT_NOT: pass
            elif op is sre_c.GROUPREF: raise NotImplementedError("groupref")
            else: raise NotImplementedError(op)
    walk(tree)
    return "".join(out)
