"""Sample strings from a Python `re` pattern by walking its parse tree.
Every sample is validated by the caller against the real compiled regex."""
import re, random
try:
    import re._parser as sre_parse, re._constants as sre_c
except ImportError:
    import sre_parse, sre_constants as sre_c

ASCII_POOL = [chr(i) for i in range(32,127)]
def _in_chars(items, rng, flags, ascii_only=False):
    neg=False; pos=[]
    cats=[]
    for op,av in items:
        if op is sre_c.NEGATE: neg=True
        elif op is sre_c.LITERAL: pos.append(chr(av))
        elif op is sre_c.RANGE: pos.extend(chr(c) for c in range(av[0], av[1]+1))
        elif op is sre_c.CATEGORY: cats.append(av)
    def catmatch(ch):
        for c in cats:
            if c is sre_c.CATEGORY_DIGIT and ch.isdigit(): return True
            if c is sre_c.CATEGORY_SPACE and ch.isspace(): return True
            if c is sre_c.CATEGORY_WORD and (ch.isalnum() or ch=="_"): return True
            if c is sre_c.CATEGORY_NOT_DIGIT and not ch.isdigit(): return True
            if c is sre_c.CATEGORY_NOT_SPACE and not ch.isspace(): return True
            if c is sre_c.CATEGORY_NOT_WORD and not (ch.isalnum() or ch=="_"): return True
        return False
    if not neg:
        pool=list(pos)
        if cats: pool += [ch for ch in ASCII_POOL if catmatch(ch)]
        return rng.choice(pool)
    pool=[ch for ch in ASCII_POOL+(["\n"] if ascii_only else ["\n","§","é","“"]) if ch not in pos and not catmatch(ch)]
    return rng.choice(pool)

def sample(pattern, rng, flags=0, maxrep=3, ascii_only=False, tree=None, chooser=None, in_hook=None):
    tree = tree if tree is not None else sre_parse.parse(pattern, flags)
    out=[]
    def cat_char(av):
        # str patterns are Unicode-aware: now and then a member that only a Unicode-aware class accepts
        # (decimal digits of other scripts for \d; digits that int() rejects, letters, for \w)
        if av is sre_c.CATEGORY_DIGIT:
            return rng.choice("٣５") if (not ascii_only and rng.random() < 0.03) else rng.choice("0123456789")
        if av is sre_c.CATEGORY_SPACE: return rng.choice(" \t\n")
        if av is sre_c.CATEGORY_WORD:
            return rng.choice("²①٣éⅧ") if (not ascii_only and rng.random() < 0.15) else rng.choice("abcXYZ019_")
        if av is sre_c.CATEGORY_NOT_SPACE: return rng.choice("aZ9.,;" if ascii_only else "aZ9.,;§")
        if av is sre_c.CATEGORY_NOT_DIGIT: return rng.choice("aZ .,")
        if av is sre_c.CATEGORY_NOT_WORD: return rng.choice(" .,;-")
        raise NotImplementedError(av)
    def walk(seq):
        for op,av in seq:
            if op is sre_c.LITERAL:
                ch=chr(av)
                if flags & re.I and rng.random()<0.3: ch=ch.swapcase()
                out.append(ch)
            elif op is sre_c.NOT_LITERAL:
                out.append(rng.choice([c for c in "aZ 9.," if c!=chr(av)]))
            elif op is sre_c.ANY: out.append(rng.choice("aZ9 .," if ascii_only else "aZ9 .,§"))
            elif op is sre_c.IN:
                ch = in_hook(av) if in_hook else None
                out.append(ch if ch is not None else _in_chars(av, rng, flags, ascii_only))
            elif op is sre_c.CATEGORY: out.append(cat_char(av))
            elif op is sre_c.BRANCH:
                alts=av[1]
                # avoid anchors unless positionally valid
                ok=[]
                for a in alts:
                    if len(a)==1 and a[0][0] is sre_c.AT:
                        if a[0][1] in (sre_c.AT_BEGINNING, sre_c.AT_BEGINNING_STRING) and out: continue
                        if a[0][1] in (sre_c.AT_END, sre_c.AT_END_STRING): 
                            ok.append(a); continue
                    ok.append(a)
                walk(chooser(alts, ok) if chooser else rng.choice(ok))
            elif op is sre_c.SUBPATTERN: walk(av[3])
            elif op in (sre_c.MAX_REPEAT, sre_c.MIN_REPEAT):
                lo,hi,sub=av
                hi=min(hi, lo+maxrep) if hi is not sre_c.MAXREPEAT else lo+maxrep
                for _ in range(rng.randint(lo,hi)): walk(sub)
            elif op is sre_c.AT: pass
            elif op is sre_c.ASSERT or op is sre_c.ASSERT_NOT: pass
            elif op is sre_c.GROUPREF: raise NotImplementedError("groupref")
            else: raise NotImplementedError(op)
    walk(tree)
    return "".join(out)


def _branch_alts(seq, acc):
    """all (id(alts), index) pairs of BRANCH nodes in a parsed (sub)pattern"""
    for op, av in seq:
        if op is sre_c.BRANCH:
            for i, a in enumerate(av[1]):
                acc.append((id(av[1]), i))
                _branch_alts(a, acc)
        elif op is sre_c.SUBPATTERN:
            _branch_alts(av[3], acc)
        elif op in (sre_c.MAX_REPEAT, sre_c.MIN_REPEAT):
            _branch_alts(av[2], acc)
    return acc


def cover(pattern, rng, flags=0, max_samples=60, maxrep=2, ascii_only=False):
    """Yield members of the pattern's language until every alternative of every alternation in the
    parse tree has been taken at least once (or max_samples is reached): branch coverage of the pattern.
    The caller validates each member against the real compiled regex."""
    tree = sre_parse.parse(pattern, flags)
    uncovered = set(_branch_alts(tree, []))
    memo = {}
    class_done = set()

    def pending(seq):
        k = id(seq)
        if k not in memo:
            memo[k] = _branch_alts(seq, [])
        return sum(1 for x in memo[k] if x in uncovered)

    n = 0
    while n < max_samples:
        taken = []

        def chooser(alts, ok):
            best, score = None, -1
            for a in ok:
                i = next(j for j, b in enumerate(alts) if b is a)
                sc = (2 if (id(alts), i) in uncovered else 0) + (1 if pending(a) else 0)
                if sc > score or (sc == score and rng.random() < 0.3):
                    best, score = (a, i), sc
            taken.append((id(alts), best[1]))
            return best[0]

        def in_hook(items):
            # literal non-ASCII members of a (non-negated) character class: each at least once
            if any(op is sre_c.NEGATE for op, _ in items):
                return None
            for op, av in items:
                if op is sre_c.LITERAL and av > 127 and (id(items), av) not in class_done:
                    class_done.add((id(items), av))
                    class_new.append(av)
                    return chr(av)
            return None

        class_new = []
        s = sample(pattern, rng, flags, maxrep=maxrep, ascii_only=ascii_only, tree=tree, chooser=chooser, in_hook=in_hook)
        n += 1
        before = len(uncovered)
        uncovered.difference_update(taken)
        yield s
        if class_new:
            continue        # a class member was new: there may be more
        if not uncovered or (len(uncovered) == before and n > 3):
            break
