"""Attach monitors to the *real* eyecite functions from outside (no source
edits): icontract postconditions that record and return True, and
sys.monitoring line hooks that read the live loop state of
Tokenizer.tokenize and count reached mechanisms.

Bindings created by `from m import f` bypass a rebinding of m.f, so the
installer rebinds every reference (by identity) in every loaded eyecite
module, patches methods on the class, and counts evaluations per contract:
a contract with zero evaluations is reported as inconclusive by the caller.
"""
import os
import sys
import types

import icontract

from vmon import monitors as M

SINK = None  # a core.Recorder
EVALS = {}
GUARD = os.environ.get("EYECITE_VERIF") == "1"
_installed = {}


class ContractObserved(Exception):
    """never raised: contracts record into SINK and return True"""


def _bump(name):
    EVALS[name] = EVALS.get(name, 0) + 1
    if SINK is not None:
        SINK.count("contract:" + name)


CONTEXT = None   # the driver's current client call (so that a contract witness can be replayed)


def _emit(found, case):
    if SINK is None:
        return
    if CONTEXT:
        case = dict(CONTEXT, **{k: v for k, v in case.items() if k not in CONTEXT})
    for mon, obs in found:
        SINK.violation(mon, case, observed=obs, via="contract")


# -- condition functions (named, argument names match the wrapped function) --

def post_tokenize(self, text, result):
    _bump("tokenize")
    _emit(M.partition(text, result),
          dict(text=text, tokenizer=type(self).__name__))
    return True


def post_get_citations(plain_text, remove_ambiguous, tokenizer, markup_text, clean_steps, result):
    _bump("get_citations")
    if plain_text == "eyecite" and not markup_text:
        text = plain_text
    elif markup_text:
        from eyecite.clean import clean_text
        try:
            text = clean_text(markup_text, clean_steps or [])
        except Exception:
            return True
    elif clean_steps:
        from eyecite.clean import clean_text
        text = clean_text(plain_text, clean_steps)
    else:
        text = plain_text
    case = dict(text=plain_text, markup=markup_text or None,
                steps=list(clean_steps) if clean_steps else None,
                remove_ambiguous=remove_ambiguous, tokenizer=type(tokenizer).__name__)
    _emit(M.offsets(text, result) + M.order(result) + M.metadata_extent(text, result)
          + M.year_edition(result), case)
    return True


def post_filter(citations, result):
    _bump("filter_citations")
    found = M.order(result)
    ids = {id(c) for c in result}
    from eyecite.models import ReferenceCitation
    # only one of several citations with an identical span can survive
    by_span = {}
    for c in citations:
        by_span.setdefault(c.span(), []).append(c)
    for c in citations:
        if isinstance(c, ReferenceCitation) or id(c) in ids:
            continue
        if any(id(o) in ids and not isinstance(o, ReferenceCitation) for o in by_span[c.span()]):
            continue
        found.append(("C03.lost_nonreference", dict(kind=M.kind(c), span=c.span())))
    if any(id(c) not in {id(x) for x in citations} for c in result):
        found.append(("C03.invented", {}))
    _emit(found, dict(filter_input=[(M.kind(c), c.span(), c.full_span()) for c in citations][:60]))
    return True


def post_update(self, offset, bisect, result):
    _bump("SpanUpdater.update")
    return True


def _wrap(fn, cond):
    return icontract.ensure(cond, error=ContractObserved)(fn)


def _rebind_everywhere(old, new):
    n = 0
    for name, mod in list(sys.modules.items()):
        if not (name == "eyecite" or name.startswith("eyecite.")) or mod is None:
            continue
        for k, v in list(vars(mod).items()):
            if v is old:
                setattr(mod, k, new)
                n += 1
    return n


def install(sink, what=("tokenize", "get_citations", "filter_citations")):
    """Install the universal contracts. Returns the number of rebound
    references per function."""
    global SINK
    SINK = sink
    if not GUARD:
        return {}
    import eyecite
    import eyecite.find
    import eyecite.helpers
    import eyecite.tokenizers

    report = {}
    if "tokenize" in what and "tokenize" not in _installed:
        T = eyecite.tokenizers.Tokenizer
        orig = T.tokenize
        T.tokenize = _wrap(orig, post_tokenize)
        _installed["tokenize"] = orig
        report["tokenize"] = 1
    if "get_citations" in what and "get_citations" not in _installed:
        orig = eyecite.find.get_citations
        new = _wrap(orig, post_get_citations)
        report["get_citations"] = _rebind_everywhere(orig, new)
        _installed["get_citations"] = orig
    if "filter_citations" in what and "filter_citations" not in _installed:
        orig = eyecite.helpers.filter_citations
        new = _wrap(orig, post_filter)
        report["filter_citations"] = _rebind_everywhere(orig, new)
        _installed["filter_citations"] = orig
    return report


# ---------------------------------------------------------------------
# sys.monitoring hooks

class LineHooks:
    """LINE-event hooks on selected code objects; no source edits. `hits`
    counts (function, source-line-text) mechanisms reached."""

    def __init__(self):
        self.mon = sys.monitoring
        self.tid = self.mon.PROFILER_ID
        self.active = False
        self.handlers = {}   # code -> fn(code, line, frame)

    def start(self):
        if not self.active:
            self.mon.use_tool_id(self.tid, "vmon")
            self.mon.register_callback(self.tid, self.mon.events.LINE, self._on_line)
            self.active = True

    def stop(self):
        if self.active:
            for code in self.handlers:
                self.mon.set_local_events(self.tid, code, 0)
            self.mon.register_callback(self.tid, self.mon.events.LINE, None)
            self.mon.free_tool_id(self.tid)
            self.active = False

    def _on_line(self, code, line):
        h = self.handlers.get(code)
        if h is not None:
            return h(code, line, sys._getframe(1))
        return self.mon.DISABLE

    def watch(self, func, handler):
        code = getattr(func, "__wrapped__", func)
        while hasattr(code, "__wrapped__"):
            code = code.__wrapped__
        code = code.__code__
        self.handlers[code] = handler
        self.mon.set_local_events(self.tid, code, self.mon.events.LINE)
        return code


def source_lines(func):
    import inspect
    f = func
    while hasattr(f, "__wrapped__"):
        f = f.__wrapped__
    lines, start = inspect.getsourcelines(f)
    return {start + i: l.strip() for i, l in enumerate(lines)}


def original(name):
    return _installed.get(name)


def all_code_objects(mods):
    out = []
    for mod in mods:
        for v in vars(mod).values():
            if isinstance(v, types.FunctionType) and v.__module__ == mod.__name__:
                out.append(v.__code__)
            if isinstance(v, type) and v.__module__ == mod.__name__:
                for w in vars(v).values():
                    f = getattr(w, "__func__", w)
                    f = getattr(f, "fget", f)
                    if isinstance(f, types.FunctionType):
                        out.append(f.__code__)
    return out
