"""Executable reference model of default citation resolution, written from
the *statements* of C06/C07/C08 (not from resolve.py). It never decides what
must be attached (that is C05's scenario model); it computes, for every
non-full citation of a list, the set of resources it MAY be attached to."""
import re

from eyecite.models import (
    FullCaseCitation,
    FullCitation,
    IdCitation,
    ReferenceCitation,
    ShortCaseCitation,
    SupraCitation,
)

NAME_FIELDS = ("plaintiff", "defendant", "resolved_case_name_short", "resolved_case_name")
HARD_PAGE_LIMIT = 100000  # "implausibly far" whatever the tunable window is


def norm_reporter(c):
    g = getattr(c, "edition_guess", None)
    return g.short_name if g is not None else c.groups.get("reporter")


def is_placeholder_case(c):
    return isinstance(c, (FullCaseCitation, ShortCaseCitation)) and "page" in c.groups and c.groups["page"] is None


def placeholder_page(c):
    """Placeholder page of a case citation, judged from the citation's own text: a page that is missing
    or consists of underscores only (independent of how the library normalises the group)."""
    page = c.groups.get("page")
    return page is None or re.fullmatch(r"_+", page) is not None


def full_key(c):
    """Independent identity of the document a full citation cites."""
    if isinstance(c, FullCaseCitation):
        if placeholder_page(c):
            return ("placeholder", id(c))
        return ("case", c.groups.get("volume"), c.groups.get("page"), norm_reporter(c))
    eds = sorted((e.short_name, e.reporter.short_name, str(e.start), str(e.end))
                 for e in tuple(c.exact_editions) + tuple(c.variation_editions))
    return (type(c).__name__, tuple(sorted((k, str(v)) for k, v in c.groups.items())), tuple(eds))


def clean_antecedent(s):
    """Reference model of the antecedent normaliser (the Penn-Treebank-style punctuation stripping the
    property is anchored in), written out here so that the oracle does not move with the code under test:
    quotes, brackets, ', ; : @ # $ % & ? !', '...' and '--' go; of the periods only ONE at the very end of
    the string goes (with closing brackets/quotes after it) - 'N.L.R.B.' becomes 'N.L.R.B', never 'NLRB'."""
    t = s
    if t[:1] in ("\"", "'"):
        t = t[1:]
    t = t.replace("``", "")
    t = re.sub(r'[ (\[{<]"', "", t)
    t = t.replace("...", "")
    t = "".join(ch for ch in t if ch not in ",;:@#$%&")
    m = re.search(r'([^.])\.[\])}>"\']*\s*$', t)
    if m:
        t = t[:m.start()] + m.group(1)
    t = t.replace("?", "").replace("!", "")
    t = re.sub(r"[^']' ", "", t)
    t = "".join(ch for ch in t if ch not in "][(){}<>")
    t = t.replace("--", "")
    t = t.replace('"', "")
    t = re.sub(r"(\S)''?", r"\1", t)
    return t.strip()


def party_contains(full, ag):
    m = full.metadata
    return bool((m.defendant and ag in m.defendant) or (m.plaintiff and ag in m.plaintiff))


def admissible_non_id(c, earlier_fulls):
    """earlier_fulls: list of (full citation, key) strictly before c.
    Returns the set of keys c may be attached to."""
    cases = [(f, k) for f, k in earlier_fulls if isinstance(f, FullCaseCitation)]
    if isinstance(c, ShortCaseCitation):
        cand = [(f, k) for f, k in cases
                if (norm_reporter(f) == norm_reporter(c) or f.groups.get("reporter") == c.groups.get("reporter"))
                and f.groups.get("volume") == c.groups.get("volume")]
        ks = {k for _, k in cand}
        if len(ks) == 1:
            return ks
        ag = c.metadata.antecedent_guess
        if ag:
            ag = clean_antecedent(ag)
            ks2 = {k for f, k in cand if party_contains(f, ag)}
            return ks2 if len(ks2) == 1 else set()
        return set()
    if isinstance(c, SupraCitation):
        ag = c.metadata.antecedent_guess
        if not ag:
            return set()
        ag = clean_antecedent(ag)
        ks = {k for f, k in cases if party_contains(f, ag)}
        return ks if len(ks) == 1 else set()
    if isinstance(c, ReferenceCitation):
        vals = {getattr(c.metadata, n, None) for n in NAME_FIELDS} - {None, ""}
        if not vals:
            return set()
        ks = set()
        for f, k in earlier_fulls:
            # a full citation introduced by a single name ('Nobelman, 508 U.S. 324') carries that name as its
            # antecedent guess: it is the case's name as far as the document tells
            fv = {getattr(f.metadata, n, None) for n in tuple(NAME_FIELDS) + ("antecedent_guess",)} - {None, ""}
            if fv & vals:
                ks.add(k)
        return ks if len(ks) == 1 else set()
    return set()


def id_admissible(idc, antecedent_full, max_pages):
    """May an id. citation follow a citation resolved to the resource whose
    first (full) citation is antecedent_full?"""
    page = antecedent_full.groups.get("page") if "page" in antecedent_full.groups else "<absent>"
    if type(antecedent_full).__name__ in ("FullCaseCitation", "FullJournalCitation") and (
            page is None or re.fullmatch(r"_+", str(page))):
        return False
    pin = idc.metadata.pin_cite
    if not pin:
        return True
    if page in (None, "<absent>") or not str(page).isdigit():
        return True  # nothing numeric to compare with (statutes, roman pages)
    m = re.match(r"(?:at )?(\d+)", pin)
    if not m:
        return False
    if len(m.group(1)) > 18 or len(str(page)) > 18:
        return False   # digit runs no page number can have ("implausibly far" whatever the window)
    try:
        p, first = int(m.group(1)), int(page)
    except ValueError:
        return False   # str.isdigit() accepts digits int() does not ('12²'): no page number to be within
    if p < first or p > first + max_pages or p >= first + HARD_PAGE_LIMIT:
        return False
    return True
