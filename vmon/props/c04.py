"""C04 Extraction, resolution and annotation never raise on any string."""
import random
import traceback

from vmon import gen, instrument, tok

LEVEL = "exploration"
RULE = ("grammar-generated legal text spliced with every hostile fragment class (Unicode spaces, "
        "non-ASCII digits, NUL/control chars, lone surrogates, astral chars, lone brackets, long digit "
        "runs, section signs glued to words, case-fold specials, placeholder pages, tags, the literal "
        "'eyecite'), mutated strings from the repository's tests, and pure-noise strings; each text is "
        "run through get_citations x {Aho-Corasick, Hyperscan, reference(1/10)} x {plain, "
        "remove_ambiguous}, resolve_citations, and annotate_citations x {unchecked, skip, wrap}; "
        "oracle = no exception escapes; non-trivial = text yielding >= 1 citation or containing a "
        "hostile fragment; distinct = distinct text")
ASSUMPTIONS = ["a watchdog timeout is inconclusive, not a violation",
               "MemoryError/RecursionError would be reported as violations too"]
CLASSES = gen.HOSTILE_CLASSES
FLOORS = {
    "quick": dict({"api:get_citations": 20000, "api:resolve_citations": 10000, "api:annotate_citations": 20000,
                   "calls:ref": 300, "citations": 20000, "component_hostile_docs": 600, "all_kinds_docs": 300, "db_strings_with_year": 4000}, **{"hostile:" + c: 100 for c in CLASSES}),
    "thorough": dict({"api:get_citations": 1000000, "api:resolve_citations": 500000,
                      "api:annotate_citations": 1000000, "calls:ref": 10000},
                     **{"hostile:" + c: 5000 for c in CLASSES}),
}
N = {"quick": 800, "thorough": 40000}
SHARDS = {"quick": 8, "thorough": 14}
PROBES = ["1 U.S. " + "9" * 5000 + ". Id. at 5.", "1 U.S. 5. Id. at " + "9" * 5000 + ".",
          "Foo v. Bar (" + "1" * 5000 + ") 1 U.S. 1", "1 Minn. L. Rev. ___. Id. at 5.", "42 U.S.C. § 1983", "\ud800 1 U.S. 1", "<§\x00>", "eyecite",
          "Foo\tv. Bar, 1 U.S. 1", "1 U.S. 1 (" * 50, "Id. at " + "9" * 400, "1 U.S. " + "9" * 5000,
          "§" * 2000, "\n" * 500 + "Id.", "Foo, supra, at 5\x00", "x v. y (٢٠٠٠) 1 U.S. 1", "1 U.S. 1 (٢٠٠٠)",
          "", " ", "\x00", "Id.", "supra", "v.", "§", "1 U.S. ___", "___ U.S. ___", "Foo v. Bar, 1 U.S. 1, ___ (1999)",
          "Mass. Gen. Laws ch. 1, § 2. Id. at 5.", "ſupra at 5; ıd. at 3; İd.", "1 F.2d 1 (\ud800 1999)"]


def plan(tier, seed):
    return [dict(i=i, nshards=SHARDS[tier], n=N[tier], seed=seed * 1000 + i, probes=(i == 0), corpus=(i == 0)) for i in range(SHARDS[tier])]


def prepare(tier, seed, workdir):
    tok.prebuild_hs()


def classify(v):
    return None


def noise(rng):
    pool = list("abcXYZ 019.,;:()[]§¶_-*'\"\n\t") + [x for v in gen.HOSTILE.values() for x in v]
    return "".join(rng.choice(pool) for _ in range(rng.randint(0, 60)))


def make_text(rng, rec):
    r = rng.random()
    if r < 0.1:
        return noise(rng)
    if r < 0.25:
        # hostile characters *inside* the components the later stages parse: a volume or page group with
        # characters only a Unicode-aware class accepts, a year-like string in either year position, and
        # references (id., supra, short form) with equally odd pin cites that resolve against it
        rec.count("component_hostile_docs")
        hm = gen.hostile_member(rng, short=False)
        odd = lambda: rng.choice([gen.num(rng), gen.num(rng), "13²", "²", "٣", "１２", "①", "12½", "xii", "___", "*5", "¶ 5"])
        pre = rng.choice(["", f" ({gen.yearish(rng)})"])
        post = rng.choice(["", f" ({gen.yearish(rng)})", f", {odd()} ({gen.yearish(rng)})"])
        s = f"{gen.name(rng)} v. {gen.name(rng)}{pre}{',' if not pre else ''} {hm}{post}"
        for _ in range(rng.randint(1, 3)):
            s += rng.choice([f". Id. at {odd()}", f". Id., at {odd()}-{odd()}", f"; {gen.ref_name(rng)}, supra, at {odd()}",
                             f". {gen.ref_name(rng)}, {gen.hostile_member(rng, short=True)}",
                             f". See {gen.ref_name(rng)} at {odd()}", ". Ibid."])
        return s + rng.choice([".", "", " and more."])
    if r < 0.33:
        # every kind in ONE document, in random order, with references by the names written in it: what one
        # stage stores for one kind (statute, journal, placeholder page) meets what a later stage reads for
        # another (reference, id., supra)
        rec.count("all_kinds_docs")
        P, D = gen.name(rng), gen.name(rng)
        pieces = [f"{P} v. {D}, {gen.num(rng)} {gen.rep(rng)} {gen.num(rng)} ({gen.yearish(rng)})",
                  rng.choice(["42 U.S.C. § 1983", "Mass. Gen. Laws ch. 1, § 2 (West 1999)", "29 C.F.R. § 1910.1200(a)(2)"]),
                  f"{gen.num(rng)} {rng.choice(['Minn. L. Rev.', 'Harv. L. Rev.', 'Yale L.J.'])} {rng.choice([gen.num(rng), '___'])} ({gen.yearish(rng)})",
                  f"In {rng.choice([P, D])} at {gen.num(rng)}, the court", f"{rng.choice([P, D])}, supra, at {gen.num(rng)}",
                  f"Id. at {gen.num(rng)}", f"{rng.choice([P, D])}, {gen.num(rng)} {gen.rep(rng)} at {gen.num(rng)}",
                  f"{gen.name(rng)} v. {gen.name(rng)}, {gen.num(rng)} {gen.rep(rng)} ___ ({gen.yearish(rng)})", "§ 12"]
        rng.shuffle(pieces)
        return rng.choice([". ", "; ", ".\n"]).join(pieces[:rng.randint(4, len(pieces))]) + "."
    base = gen.dense_doc(rng, hostile=0, rec=rec, maxfrag=5)
    # splice every class with equal probability
    k = rng.randint(1, 5)
    for _ in range(k):
        cls = rng.choice(CLASSES)
        frag = rng.choice(gen.HOSTILE[cls])
        rec.count("hostile:" + cls)
        r2 = rng.random()
        if r2 < 0.5 and base:
            # replace a separator or digit to land inside citations
            idx = [i for i, ch in enumerate(base) if ch in " .,0123456789"]
            if idx:
                i = rng.choice(idx)
                base = base[:i] + frag + base[i + 1:]
                continue
        i = rng.randrange(len(base) + 1)
        base = base[:i] + frag + base[i:]
    if rng.random() < 0.2:
        base = gen.mutate(base, rng, rec=None, classes=["ws", "brackets"])
    if rng.random() < 0.25:
        base += rng.choice([". Id. at 5.", " Id. at " + gen.num(rng) + ".", "; id., at " + rng.choice(gen.HOSTILE["longnum"]),
                            ". Ibid.", "; Foo, supra, at " + rng.choice(gen.HOSTILE["longnum"])])
    return base


def inner_frame(tb):
    frames = [f for f in traceback.extract_tb(tb) if "/eyecite/" in f.filename]
    if frames:
        f = frames[-1]
        return f"{f.filename.rsplit('/', 1)[-1]}:{f.name}"
    return "?"


def guarded(rec, api, case, fn):
    rec.count("api:" + api)
    try:
        return True, fn()
    except BaseException as e:  # noqa
        if isinstance(e, (KeyboardInterrupt, SystemExit)):
            raise
        rec.violation(f"C04.{api}.{type(e).__name__}@{inner_frame(e.__traceback__)}", case,
                      observed=dict(exception=type(e).__name__, message=str(e)[:200],
                                    where=inner_frame(e.__traceback__)))
        return False, None


def exercise(text, rec, use_ref):
    from eyecite import annotate_citations, get_citations, resolve_citations

    names = ["ac", "hs"] + (["ref"] if use_ref else [])
    any_cit = False
    for name in names:
        T = tok.get(name)
        for amb in (False, True):
            case = dict(text=text, tokenizer=name, remove_ambiguous=amb)
            ok, cs = guarded(rec, "get_citations", case, lambda: get_citations(text, tokenizer=T, remove_ambiguous=amb))
            if not ok:
                continue
            if not isinstance(cs, list):
                rec.violation("C04.get_citations.not_a_list", case, observed=type(cs).__name__)
                continue
            rec.count("calls:" + name)
            rec.count("citations", len(cs))
            any_cit = any_cit or bool(cs)
            ok, res = guarded(rec, "resolve_citations", case, lambda: resolve_citations(cs))
            if ok and not hasattr(res, "items"):
                rec.violation("C04.resolve_citations.not_a_mapping", case, observed=type(res).__name__)
            if amb:
                continue
            anns = [(c.span(), f"<a id='{i}'>", "</a>") for i, c in enumerate(cs)]
            for mode in ("unchecked", "skip", "wrap"):
                c2 = dict(case, mode=mode)
                ok, out = guarded(rec, "annotate_citations", c2,
                                  lambda: annotate_citations(text, anns, unbalanced_tags=mode))
                if ok and not isinstance(out, str):
                    rec.violation("C04.annotate_citations.not_a_str", c2, observed=type(out).__name__)
    rec.ev()
    if any_cit:
        rec.nontrivial(text)
    return any_cit


def run_shard(spec, rec):
    instrument.install(rec, what=())
    rng = random.Random(spec["seed"])
    if spec.get("probes"):
        for p in PROBES:
            exercise(p, rec, True)
    corpus = gen.test_corpus() if spec.get("corpus") else []
    for s in corpus[::3]:
        exercise(gen.mutate(s, rng, rec=rec), rec, False)
    # every reporter, journal and statute string of the database once, with a year and a pin cite (what
    # the later stages look up per string - editions, date ranges, courts - differs from string to string)
    from reporters_db import JOURNALS, LAWS
    strings = [("r", x) for x in gen.DB.std_all] + [("j", x) for x in sorted(JOURNALS)] + [("l", x) for x in sorted(LAWS)]
    for n, (kind, x) in enumerate(strings):
        if n % spec.get("nshards", 8) != spec["i"]:
            continue
        year = rng.choice([1999, 1850, 2100, 1701, gen.YEARNOW])
        text = {"r": f"Foo v. Bar, 1 {x} 5, 7 ({year}). Id. at 8.", "j": f"See 1 {x} 5, 7 ({year}). Id. at 8.",
                "l": f"See {x} § 5 ({year}); 1 {x} 5 ({year})."}[kind]
        exercise(text, rec, n % 40 == 0)
        rec.count("db_strings_with_year")
    for k in range(spec["n"]):
        text = make_text(rng, rec)
        got = exercise(text, rec, k % 10 == 0)
        if got and len(rec.samples) < 3:
            rec.sample(dict(text=text))


def replay(w, rec):
    exercise(w["case"]["text"], rec, True)
