"""C12 The token stream partitions the text.

Deciding monitor: M.partition at the boundary of tokenizer.tokenize for the
three shipped tokenizers (also installed as an icontract postcondition on
Tokenizer.tokenize so that it runs inside get_citations as well).
Inner monitor: sys.monitoring LINE hook on the real Tokenizer.tokenize frame
asserting the loop invariant  sum(len(t) for t in all_tokens) == offset  at
every loop head (anchor state `offset`)."""
import random

from vmon import gen, instrument, tok
from vmon import monitors as M

LEVEL = "exploration"
RULE = ("seeded citation-dense documents (grammar fragments incl. nominative-reporter party "
        "names, prefix-overlapping reporter strings, section signs, id/supra next to stop words) "
        "with hostile character mutations, tokenised by AhocorasickTokenizer, HyperscanTokenizer "
        "and (1/8 subsample) the reference Tokenizer; a case is non-trivial when the tokenizer "
        "returned at least one special token; distinct = distinct (tokenizer, text)")
ASSUMPTIONS = ["CPython str/len semantics", "monitors observe only executions this workload produced"]
FLOORS = {
    "quick": {"tokenize_calls": 3000, "overlap_skips": 300, "merges": 100, "nominative_drops": 50,
              "loop_heads_checked": 3000, "pattern_member_texts": 20000},
    "thorough": {"tokenize_calls": 100000, "overlap_skips": 5000, "merges": 2000,
                 "nominative_drops": 1000, "loop_heads_checked": 100000},
}
N = {"quick": 700, "thorough": 30000}
SHARDS = {"quick": 8, "thorough": 14}

KNOWN_PROBES = []


def plan(tier, seed):
    specs = [dict(i=i, n=N[tier], seed=seed * 1000 + i) for i in range(SHARDS[tier])]
    if tier == "thorough":
        specs.append(dict(i=99, suite=True, n=0, seed=seed))
    return specs


def prepare(tier, seed, workdir):
    tok.prebuild_hs()


def classify(v):
    return None


def nominative_doc(rng):
    """Documents that force the nominative-reporter special case."""
    nm = rng.choice(["Thompson", "Cooke", "Holmes", "Olcott", "Chase", "Gilmer", "Bee", "Deady", "Taney"])
    v, p = gen.num(rng), gen.num(rng)
    r = rng.random()
    if r < 0.15:
        # a nominative citation that is KEPT, then a special token glued to the first character of the next
        # citation (overlapping candidates right after a kept nominative one)
        glue = rng.choice(["§", "§§", "¶", "Id.", "supra,"])
        s = f"{gen.num(rng)} {nm} {gen.num(rng)} {glue}{v} {rng.choice(['U.S.C. § ' + p, gen.rep(rng) + ' ' + p])}"
    elif r < 0.4:
        s = f"{gen.name(rng)} v. {nm}, {v} {gen.rep(rng)} {p}"
    elif r < 0.6:
        s = f"{gen.num(rng)} {nm} {v} {gen.rep(rng)} {p}"
    elif r < 0.8:
        s = f"{nm} {v} {gen.rep(rng)} {p}, {gen.num(rng)} {nm} {gen.num(rng)}"
    else:
        s = f"{nm}, {v} {gen.rep(rng)} at {p}; {gen.num(rng)} {nm} {gen.num(rng)} {gen.rep(rng)} {gen.num(rng)}"
    return s


def make_doc(rng, rec):
    r = rng.random()
    if r < 0.25:
        s = nominative_doc(rng) + rng.choice([". ", "; ", " "]) + gen.dense_doc(rng, hostile=0.3, rec=rec, maxfrag=3)
    elif r < 0.35:
        s = " ".join(rng.choice(["§", "§§", "see", "Id.", "supra", "v.", "id.,", "citing", "§ 5", "supra,§,", "\n"])
                     for _ in range(rng.randint(2, 10)))
    else:
        s = gen.dense_doc(rng, rec=rec)
    return s


def mech_counts(T, text, result, rec):
    """Boundary-derived evidence that the overlap/merge/pop mechanisms were
    exercised: recompute the candidate list and compare with the output."""
    from eyecite.models import CitationToken, Token
    from eyecite.tokenizers import token_is_from_nominative_reporter

    try:
        cands = sorted(T.extract_tokens(text), key=lambda m: (m.start, -m.end))
    except Exception:
        return
    out = [t for t in result[0] if isinstance(t, Token)]
    kept = {(type(t).__name__, t.start, t.end) for t in out}
    seen = set()
    for c in cands:
        k = (type(c).__name__, c.start, c.end)
        if k in seen:
            rec.count("merges")
            continue
        seen.add(k)
        if k not in kept:
            if isinstance(c, CitationToken) and token_is_from_nominative_reporter(c) and any(
                    isinstance(t, CitationToken) and c.start <= t.start < c.end for t in out):
                rec.count("nominative_drops")
            else:
                rec.count("overlap_skips")


def check_one(name, T, text, rec, hooks_state=None):
    try:
        result = T.tokenize(text)
    except Exception as e:  # C04's business, but a partition cannot be observed
        rec.count("tokenize_raised:" + type(e).__name__)
        return
    rec.ev()
    rec.count("tokenize_calls")
    rec.count("tokenize_calls:" + name)
    found = M.partition(text, result)
    for mon, obs in found:
        rec.violation(mon, dict(text=text, tokenizer=name), observed=obs)
    if result[1]:
        rec.nontrivial([name, text])
        rec.count("special_tokens", len(result[1]))
    mech_counts(T, text, result, rec)
    if len(rec.samples) < 3 and len(result[1]) >= 3:
        rec.sample(dict(tokenizer=name, text=text, tokens=[str(t) for t in result[0]][:40]))


def install_loop_hook(rec):
    """Inner monitor on the real frame of Tokenizer.tokenize."""
    from eyecite.tokenizers import Tokenizer

    hooks = instrument.LineHooks()
    lines = instrument.source_lines(Tokenizer.tokenize)
    heads = {ln for ln, src in lines.items() if src.startswith("for token in tokens")}
    if not heads:
        rec.note("loop head of Tokenizer.tokenize not found: inner monitor inconclusive")
        return None
    state = {"reported": 0}

    def on_line(code, line, frame):
        if line not in heads:
            return None
        loc = frame.f_locals
        if "all_tokens" not in loc or "offset" not in loc:
            return None
        rec.count("loop_heads_checked")
        total = sum(len(t) for t in loc["all_tokens"])
        if total != loc["offset"] and state["reported"] < 5:
            state["reported"] += 1
            rec.violation("C12.loop_invariant", dict(text=loc.get("text"), tokenizer=type(loc.get("self")).__name__),
                          observed=dict(offset=loc["offset"], emitted_chars=total,
                                        last=str(loc.get("last_token"))))
        return None

    hooks.start()
    hooks.watch(Tokenizer.tokenize, on_line)
    return hooks


def run_shard(spec, rec):
    if spec.get("suite"):
        from vmon.props import _extract
        return _extract.suite_under_contracts(rec, "C12.")
    rng = random.Random(spec["seed"])
    instrument.install(rec, what=("tokenize",))
    hooks = install_loop_hook(rec)
    toks = {n: tok.get(n) for n in ("ac", "hs", "ref")}
    try:
        # W1: members of every extractor pattern (branch coverage, sharded), embedded between ordinary words
        from eyecite.tokenizers import EXTRACTORS
        from vmon.rxgen import cover
        nsh = SHARDS.get(rec.tier, 8)
        for idx, e in enumerate(EXTRACTORS):
            if idx % nsh != spec["i"] % nsh:
                continue
            try:
                pool = list(cover(e.regex, rng, e.flags, max_samples=4 if rec.tier == "quick" else 40))
            except Exception:
                continue
            for m in pool:
                if not e.compiled_regex.search(m):
                    continue
                text = rng.choice(["", "See ", "x  "]) + m + rng.choice(["", "  and more", ". Id. at 5", "\nnext"])
                rec.count("pattern_member_texts")
                for name in ("ac", "hs"):
                    check_one(name, toks[name], text, rec)
        for k in range(spec["n"]):
            text = make_doc(rng, rec)
            for name in ("ac", "hs"):
                check_one(name, toks[name], text, rec)
            if k % 8 == 0:
                check_one("ref", toks["ref"], text, rec)
    finally:
        if hooks:
            hooks.stop()


def replay(w, rec):
    c = w["case"]
    T = tok.get({"AhocorasickTokenizer": "ac", "HyperscanTokenizer": "hs", "Tokenizer": "ref"}.get(
        c["tokenizer"], c["tokenizer"]))
    install_loop_hook(rec)
    check_one(c["tokenizer"], T, c["text"], rec)
