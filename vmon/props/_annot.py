"""Generators for the annotation properties (W8, W6a)."""
import re

# plain alphabet: disjoint from every character that inserted material uses
# (tag letters i e m b p d v a r s n, '<', '>', '/', tab, newline, '=', '"')
PLAIN = "ACDFGHJKLNOQSTUVWXYZ cfghjkloqtuwxyz.,;1234567890"
INS = ["<i>", "</i>", "<b>", "</b>", "<em>", "</em>", "<p>", "</p>", "\t", "\n", "\n\n", "\t\t", "<br/>",
       "<span>", "</span>", "<div>", "</div>"]
SENT = re.compile(r"«/?\d+»")


def plain_text(rng, lo=0, hi=40):
    return "".join(rng.choice(PLAIN) for _ in range(rng.randint(lo, hi)))


def periodic_text(rng):
    """Repetitive text (the same citation-like unit many times, with small variations): legal documents
    repeat citations, and repetition is where a non-minimal diff shows."""
    unit = "".join(rng.choice(PLAIN) for _ in range(rng.randint(4, 12)))
    out = []
    for _ in range(rng.randint(4, 14)):
        u = unit
        if rng.random() < 0.2:
            i = rng.randrange(len(u))
            u = u[:i] + rng.choice(PLAIN) + u[i + 1:]
        out.append(u)
    return "".join(out)


def source_from(rng, p, rate=0.15):
    """Insert foreign material; returns (source, pos) with pos[i] = index of
    plain char i in source."""
    out, pos, n = [], [], 0
    for ch in p:
        while rng.random() < rate:
            x = rng.choice(INS)
            out.append(x)
            n += len(x)
        pos.append(n)
        out.append(ch)
        n += 1
    while rng.random() < 0.3:
        out.append(rng.choice(INS))
    return "".join(out), pos


def mutated_source(rng, p):
    """Arbitrary edit: replacements, deletions, insertions (not forced)."""
    s = list(p)
    for _ in range(rng.randint(1, 6)):
        r = rng.random()
        i = rng.randrange(len(s) + 1)
        if r < 0.4:
            s[i:i] = list(rng.choice(INS + ["  ", "x", "é", "“"]))
        elif r < 0.7 and s:
            del s[i:i + rng.randint(1, 3)]
        elif s:
            j = min(len(s), i + rng.randint(1, 3))
            s[i:j] = list(rng.choice(["Q", "zz", " ", "\n"]))
    return "".join(s)


def random_spans(rng, n, kmax=5):
    out = []
    for _ in range(rng.randint(0, kmax)):
        a, b = rng.randint(0, n), rng.randint(0, n)
        if a > b:
            a, b = b, a
        r = rng.random()
        if r < 0.15:
            b = a                      # empty
        elif r < 0.3 and out:
            a = out[-1][1]             # touching the previous one
            b = max(a, min(n, a + rng.randint(0, 5)))
        elif r < 0.4 and out:
            a = max(0, out[-1][1] - rng.randint(1, 3))   # overlapping
            b = max(a, b)
        out.append((a, b))
    rng.shuffle(out)                   # unsorted
    return out


def disjoint_spans(rng, n, kmax=3, touching=True):
    """Sorted, non-empty, pairwise non-overlapping spans (may touch)."""
    cuts = sorted(rng.sample(range(n + 1), min(n + 1, 2 * rng.randint(0, kmax))))
    sp = [(cuts[i], cuts[i + 1]) for i in range(0, len(cuts) - 1, 2) if cuts[i] < cuts[i + 1]]
    if touching and sp and rng.random() < 0.4:
        a, b = sp[-1]
        if b < n:
            sp.append((b, min(n, b + rng.randint(1, 4))))
    return sp


def annotations(spans, style="sentinel"):
    if style == "sentinel":
        return [((a, b), f"«{i}»", f"«/{i}»") for i, (a, b) in enumerate(spans)]
    return [((a, b), f'<a id="{i}">', "</a>") for i, (a, b) in enumerate(spans)]


def strip_sentinels(s):
    return SENT.sub("", s)


# ---------------------------------------------------------------- trees (C11)
TREE_TXT = "ACDFGHJKLNOQSTUVWXYZ 0123456789.,;"
TREE_TAGS = ["i", "em", "b", "p", "div", "span"]


def tree(rng, depth=0, out=None):
    top = out is None
    if top:
        out = []
    for _ in range(rng.randint(1, 4)):
        r = rng.random()
        if r < 0.55 or depth >= 3:
            out.append("".join(rng.choice(TREE_TXT) for _ in range(rng.randint(1, 8))))
        else:
            t = rng.choice(TREE_TAGS)
            out.append(f"<{t}>")
            tree(rng, depth + 1, out)
            out.append(f"</{t}>")
    if top:
        return "".join(out)
