"""Generators for the annotation properties (W8, W6a)."""
import re

# plain alphabet: disjoint from every character that inserted material uses
# (tag letters i e m b p d v a r s n, '<', '>', '/', tab, newline, '=', '"')
# (the last five: combining tilde and acute - decomposed accents as in NFD sources -, the Angstrom and Kelvin
# signs, which canonical normalisation rewrites, and an astral character)
PLAIN = "ACDFGHJKLNOQSTUVWXYZ cfghjkloqtuwxyz.,;1234567890\u0303\u0301\u212b\u212a\U0001d4d0"
INS = ["<i>", "</i>", "<b>", "</b>", "<em>", "</em>", "<p>", "</p>", "\t", "\n", "\n\n", "\t\t", "<br/>",
       "<span>", "</span>", "<div>", "</div>"]
SENT = re.compile(r"«/?\d+»")


def plain_text(rng, lo=0, hi=40):
    return "".join(rng.choice(PLAIN) for _ in range(rng.randint(lo, hi)))


def periodic_text(rng):
    """Repetitive text (the same citation-like unit many times, with small variations): legal documents
    repeat citations, and repetition is where a non-minimal diff shows."""
    unit = "".join(rng.choice(PLAIN) for _ in range(rng.randint(4, 12)))
    out = []
    for _ in range(rng.randint(4, 14)):
        u = unit
        if rng.random() < 0.2:
            i = rng.randrange(len(u))
            u = u[:i] + rng.choice(PLAIN) + u[i + 1:]
        out.append(u)
    return "".join(out)


def source_from(rng, p, rate=0.15):
    """Insert foreign material; returns (source, pos) with pos[i] = index of
    plain char i in source."""
    out, pos, n = [], [], 0
    for ch in p:
        while rng.random() < rate:
            x = rng.choice(INS)
            out.append(x)
            n += len(x)
        pos.append(n)
        out.append(ch)
        n += 1
    while rng.random() < 0.3:
        out.append(rng.choice(INS))
    return "".join(out), pos


def mutated_source(rng, p):
    """Arbitrary edit: replacements, deletions, insertions (not forced)."""
    s = list(p)
    for _ in range(rng.randint(1, 6)):
        r = rng.random()
        i = rng.randrange(len(s) + 1)
        if r < 0.4:
            s[i:i] = list(rng.choice(INS + ["  ", "x", "é", "“"]))
        elif r < 0.7 and s:
            del s[i:i + rng.randint(1, 3)]
        elif s:
            j = min(len(s), i + rng.randint(1, 3))
            s[i:j] = list(rng.choice(["Q", "zz", " ", "\n"]))
    return "".join(s)


def random_spans(rng, n, kmax=5):
    out = []
    for _ in range(rng.randint(0, kmax)):
        a, b = rng.randint(0, n), rng.randint(0, n)
        if a > b:
            a, b = b, a
        r = rng.random()
        if r < 0.15:
            b = a                      # empty
        elif r < 0.3 and out:
            a = out[-1][1]             # touching the previous one
            b = max(a, min(n, a + rng.randint(0, 5)))
        elif r < 0.4 and out:
            a = max(0, out[-1][1] - rng.randint(1, 3))   # overlapping
            b = max(a, b)
        out.append((a, b))
    rng.shuffle(out)                   # unsorted
    return out


def disjoint_spans(rng, n, kmax=3, touching=True):
    """Sorted, non-empty, pairwise non-overlapping spans (may touch)."""
    cuts = sorted(rng.sample(range(n + 1), min(n + 1, 2 * rng.randint(0, kmax))))
    sp = [(cuts[i], cuts[i + 1]) for i in range(0, len(cuts) - 1, 2) if cuts[i] < cuts[i + 1]]
    if touching and sp and rng.random() < 0.4:
        a, b = sp[-1]
        if b < n:
            sp.append((b, min(n, b + rng.randint(1, 4))))
    return sp


def annotations(spans, style="sentinel"):
    if style == "sentinel":
        return [((a, b), f"«{i}»", f"«/{i}»") for i, (a, b) in enumerate(spans)]
    return [((a, b), f'<a id="{i}">', "</a>") for i, (a, b) in enumerate(spans)]


_LINK_ID = [1000]


def link_annotations(spans):
    """The usual shape of link annotations: one closing string shared by all of them, opening strings
    that are never the same twice in this process (so a string left over from an earlier annotation or an
    earlier call is not one of the strings passed to this call)."""
    out = []
    for a, b in spans:
        _LINK_ID[0] += 1
        out.append(((a, b), f"«{_LINK_ID[0]}»", "«/»"))
    return out


META = ["\\1", "\\g<0>", "\\", "\\n", "{0}", "{tag}", "%s", "$&", "\\2", "{", "}}", "&amp;"]


def meta_annotations(spans, rng):
    """Before/after strings that contain what a template engine would interpret (regex group references
    and escapes, format fields, %-formats): they must come out literally."""
    out = []
    for a, b in spans:
        _LINK_ID[0] += 1
        out.append(((a, b), f"«{_LINK_ID[0]}{rng.choice(META)}»", f"«/{rng.choice(META)}»"))
    return out


def same_annotations(spans):
    """Every annotation carries the SAME before and after string (one CSS class for all citations), and
    both strings share characters with the plain alphabet ('k'): output that is post-processed with
    character-set operations (strip/rstrip) or merged by comparing the strings shows here."""
    return [((a, b), "«k", "k»") for a, b in spans]


def strip_sentinels(s):
    return SENT.sub("", s)


def strip_passed(s, anns):
    """Delete exactly the before/after strings that were passed to the call."""
    for _, before, after in anns:
        s = s.replace(before, "")
    for after in {a for _, _, a in anns}:
        s = s.replace(after, "")
    return s


# ---------------------------------------------------------------- trees (C11)
TREE_TXT = "ACDFGHJKLNOQSTUWYZ346890.,;\u0303\u0301\u212b"      # disjoint from every character used in tags and attributes (no blank: attributes contain one)
TREE_TAGS = ["i", "em", "b", "p", "div", "span", "h2", "sup", "page-number", "u"]
TREE_ATTRS = ["", "", "", ' class="x"', ' id="k7"', " data-v='1'"]


def tree(rng, depth=0, out=None):
    top = out is None
    if top:
        out = []
    for _ in range(rng.randint(1, 4)):
        r = rng.random()
        if r < 0.55 or depth >= 3:
            out.append("".join(rng.choice(TREE_TXT) for _ in range(rng.randint(1, 8))))
        else:
            t = rng.choice(TREE_TAGS)
            out.append(f"<{t}{rng.choice(TREE_ATTRS)}>")
            tree(rng, depth + 1, out)
            out.append(f"</{t}>")
    if top:
        return "".join(out)


def relocate_one_insert(rng, p, s, pos):
    """Another source for the SAME plain text with the SAME length: one run of inserted material is moved
    to a different place. Returns (source2, pos2) or None."""
    # runs of inserted material: gaps between consecutive plain characters
    gaps = []
    prev_end = 0
    for i, q in enumerate(pos):
        if q > prev_end:
            gaps.append((i, prev_end, q))          # inserted s[prev_end:q] before plain char i
        prev_end = q + 1
    if prev_end < len(s):
        gaps.append((len(p), prev_end, len(s)))
    if not gaps or len(p) < 2:
        return None
    gi, a, b = rng.choice(gaps)
    chunk = s[a:b]
    rest = s[:a] + s[b:]
    # positions of plain chars in rest
    pos_rest = []
    for i, q in enumerate(pos):
        pos_rest.append(q - (b - a) if q >= b else q)
    targets = [i for i in range(len(p) + 1) if i != gi]
    if not targets:
        return None
    ti = rng.choice(targets)
    at = pos_rest[ti] if ti < len(p) else len(rest)
    # insert before the plain char ti, but before any material already sitting there
    while at > 0 and (at - 1) not in set(pos_rest) and (ti == 0 or at - 1 > pos_rest[ti - 1]):
        at -= 1
    s2 = rest[:at] + chunk + rest[at:]
    pos2 = [q + len(chunk) if q >= at else q for q in pos_rest]
    if "".join(s2[q] for q in pos2) != p or len(s2) != len(s) or s2 == s:
        return None
    return s2, pos2
