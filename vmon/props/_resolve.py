"""Shared machinery for C06/C07/C08: abstract alphabet of citation kinds
instantiated with real objects extracted by the real get_citations, the
sequence enumerator, and the three monitors."""
import copy
import itertools
import random

from vmon import gen, refmodel
from vmon import monitors as M

SNIPPETS = {
    # kind: (text, class name, index among citations of that class)
    "fullA": ("Alphaxo v. Betaxo, 1 U.S. 100 (1999)", "FullCaseCitation", 0),
    "fullB": ("Gammaxo v. Deltaxo, 1 U.S. 300 (2001)", "FullCaseCitation", 0),      # A's reporter+volume
    "fullC": ("Epsilonxo v. Zetaxo, 5 F.2d 50 (1930)", "FullCaseCitation", 0),
    "fullAdup": ("Alphaxo v. Betaxo, 1 U. S. 100, 105 (1999)", "FullCaseCitation", 0),  # variation spelling of A
    "fullC3": ("Epsilonxo v. Zetaxo, 5 F.3d 50 (1995)", "FullCaseCitation", 0),      # C's volume+page, other series
    "fullPh": ("Etaxo v. Thetaxo, 9 U.S. ___ (2020)", "FullCaseCitation", 0),
    "law": ("Mass. Gen. Laws ch. 1, § 2", "FullLawCitation", 0),
    "journal": ("1 Minn. L. Rev. 1 (1990)", "FullJournalCitation", 0),
    "journalPh": ("7 Minn. L. Rev. ___ (1995)", "FullJournalCitation", 0),
    "shortC": ("Epsilonxo, 5 F.2d at 55.", "ShortCaseCitation", 0),           # unique by reporter/volume
    "shortA_named": ("Alphaxo, 1 U.S. at 101.", "ShortCaseCitation", 0),      # name breaks the A/B tie
    "shortAmb": ("1 U.S. at 101.", "ShortCaseCitation", 0),                   # no antecedent
    "shortForeign": ("Foo, 77 P.2d at 3.", "ShortCaseCitation", 0),
    "supraA": ("Alphaxo, supra, at 101.", "SupraCitation", 0),
    "supraUnknown": ("Omegaxo, supra, at 4.", "SupraCitation", 0),
    "supraAmb": ("axo, supra, at 4.", "SupraCitation", 0),                    # substring of every party
    "refA": ("Alphaxo v. Betaxo, 1 U.S. 100 (1999). In Alphaxo at 103 we see", "ReferenceCitation", 0),
    "idValid": ("Id. at 101.", "IdCitation", 0),
    "idInvalid": ("Id. at 99999.", "IdCitation", 0),
    "idNoPin": ("Id. Next", "IdCitation", 0),
    "unknown": ("§ 99 of the code", "UnknownCitation", 0),
}
KINDS = list(SNIPPETS)
# extra kinds used only by the boundary-value / sampled workloads
EXTRA_SNIPPETS = {
    "fullPh1": ("Etaxo v. Thetaxo, 9 U.S. _ (2020)", "FullCaseCitation", 0),           # one-underscore placeholder
    "shortC3": ("Epsilonxo, 5 F.3d at 55.", "ShortCaseCitation", 0),                    # C's name+volume, other series
    "shortPh": ("Etaxo, 9 U.S. at ___.", "ShortCaseCitation", 0),
    "journalDup": ("1 Minn. L. Rev. 1, 5 (1990) (discussing x)", "FullJournalCitation", 0),
    "lawDup": ("Mass. Gen. Laws ch. 1, § 2 (West 1999)", "FullLawCitation", 0),
    "idBelow": ("Id. at 99.", "IdCitation", 0),
    "idAtPage": ("Id. at 100.", "IdCitation", 0),
    "idStar": ("Id. at *10.", "IdCitation", 0),
    "idPara": ("Id. at ¶ 10.", "IdCitation", 0),
    "idRoman": ("Id. at xii.", "IdCitation", 0),
    "supraB": ("Deltaxo, supra, at 301.", "SupraCitation", 0),
    "shortB_named": ("Gammaxo, 1 U.S. at 301.", "ShortCaseCitation", 0),
    "shortA_var": ("Betaxo, 1 U. S. at 104.", "ShortCaseCitation", 0),       # variation spelling, defendant name
    "fullRoman": ("Iotaxo v. Kappaxo, 3 U.S. xii (1801)", "FullCaseCitation", 0),
    "fullNom": ("Marburyxo v. Madisonxo, 5 U.S. (1 Cranch) 137 (1803)", "FullCaseCitation", 0),   # nominative form
    "fullNomPlain": ("Marburyxo v. Madisonxo, 5 U.S. 137 (1803)", "FullCaseCitation", 0),         # same document
    "fullRoman2": ("Iotaxo v. Kappaxo, 3 U.S. iv (1801)", "FullCaseCitation", 0),       # other roman page, same volume
    "shortXname": ("Epsilonxo, 1 U.S. at 105.", "ShortCaseCitation", 0),               # A/B's volume, C's party name
    "fullNoName": ("1 U.S. 100", "FullCaseCitation", 0),                       # equal to A without parties
    "refUnknown": ("Omegaxo v. Sigmaxo, 8 F.3d 8 (1993). In Omegaxo at 9 we", "ReferenceCitation", 0),
    # antecedents that occur inside a party name but not at its beginning, in a second case at the beginning
    "fullD": ("Roexo v. Board of Educationxo, 2 U.S. 2 (1990)", "FullCaseCitation", 0),
    "fullE": ("Educationxo v. Smithxo, 2 U.S. 50 (1991)", "FullCaseCitation", 0),        # D's reporter+volume
    "fullMc": ("McDonaldxo v. Xenoxo, 4 F.2d 4 (1950)", "FullCaseCitation", 0),
    "fullDon": ("Donaldxo v. Yenoxo, 4 F.2d 40 (1951)", "FullCaseCitation", 0),
    "supraEdu": ("Educationxo, supra, at 3.", "SupraCitation", 0),          # in D (later word) and in E (first word)
    "supraRoe": ("Roexo, supra, at 3.", "SupraCitation", 0),
    "supraDon": ("Donaldxo, supra.", "SupraCitation", 0),                  # inside 'McDonaldxo' and = 'Donaldxo'
    "supraBoard": ("Board, supra, at 3.", "SupraCitation", 0),            # first word of a multi-word name
    "shortEdu": ("Educationxo, 2 U.S. at 51.", "ShortCaseCitation", 0),    # name in both D and E
    "shortSmith": ("Smithxo, 2 U.S. at 51.", "ShortCaseCitation", 0),
    # an antecedent with inner periods, a second case spelled without them
    "fullNLRB": ("N.L.R.B. v. Xeroxo, 6 F.2d 6 (1960)", "FullCaseCitation", 0),
    "fullNLRBplain": ("NLRB v. Yankeexo, 6 F.2d 60 (1961)", "FullCaseCitation", 0),
    "supraNLRB": ("N.L.R.B., supra, at 7.", "SupraCitation", 0),
    "shortNLRB": ("N.L.R.B., 6 F.2d at 7.", "ShortCaseCitation", 0),
    "supraNLRBplain": ("NLRB, supra, at 61.", "SupraCitation", 0),
    # a second case that shares a party name with A, and references by that name
    "fullA2": ("Alphaxo v. Omicronxo, 7 F.2d 70 (1940)", "FullCaseCitation", 0),
    "refA2": ("Alphaxo v. Omicronxo, 7 F.2d 70 (1940). In Omicronxo at 71 we see", "ReferenceCitation", 0),
    "refAlpha": ("Alphaxo v. Omicronxo, 7 F.2d 70 (1940). In Alphaxo at 72 we see", "ReferenceCitation", 0),
    # a case cited by a single name only, and another case with that party name
    "fullAnte": ("Nobelmanxo, 508 U.S. 324, 330 (1993)", "FullCaseCitation", 0),
    "fullNob2": ("Nobelmanxo v. Acmexo, 520 U.S. 17 (1997)", "FullCaseCitation", 0),
    "refNob": ("Nobelmanxo v. Acmexo, 520 U.S. 17 (1997). In Nobelmanxo at 19 we see", "ReferenceCitation", 0),
    "supraNob": ("Nobelmanxo, supra, at 20.", "SupraCitation", 0),
    # references to the two roman-page cases of one volume (same party names: only the page tells them apart)
    "supraAvol": ("Alphaxo, 1 supra, at 101.", "SupraCitation", 0),         # a supra written with the volume of one candidate
    "supraIota": ("Iotaxo, supra, at xiii.", "SupraCitation", 0),
    "shortIota": ("Iotaxo, 3 U.S. at xiii.", "ShortCaseCitation", 0),
    "supraPunct": ("the rule ..., supra, at 4.", "SupraCitation", 0),      # antecedent of punctuation only
    "supraDash": ("as noted --, supra.", "SupraCitation", 0),
}


def build_protos(extra=False):
    from eyecite import get_citations
    import eyecite.models as EM

    protos = {}
    src = dict(SNIPPETS)
    if extra:
        src.update(EXTRA_SNIPPETS)
    for k, (text, cls, nth) in src.items():
        cs = [c for c in get_citations(text) if type(c).__name__ == cls]
        if len(cs) <= nth:
            raise RuntimeError(f"prototype {k!r}: {text!r} yielded no {cls}")
        protos[k] = cs[nth]
    return protos


def dynamic_id_kinds(protos, max_pages):
    """Boundary values of the pin window, built from the module constant."""
    from eyecite import get_citations
    out = {}
    for name, pin in (("idWinMax", 100 + max_pages), ("idWinMax1", 100 + max_pages + 1), ("idFar", 100 + 100000)):
        out[name] = [c for c in get_citations(f"Id. at {pin}.") if type(c).__name__ == "IdCitation"][0]
    return out


def instantiate(protos, combo):
    """Distinct objects per use, each with its own metadata and groups (a resolver that writes into a
    citation must not leak into other sequences and hide itself)."""
    out = []
    for k in combo:
        c = copy.copy(protos[k])
        c.metadata = copy.copy(c.metadata)
        c.groups = dict(c.groups)
        out.append(c)
    return out


# focus alphabets: longer exhaustive enumeration over the kinds that interact in one mechanism
FOCUS = {
    "short": ["fullA", "fullB", "fullC", "fullC3", "fullNoName", "shortA_named", "shortAmb", "shortXname",
              "shortC3", "supraA"],
    "id": ["fullA", "fullPh", "fullRoman", "fullRoman2", "fullNom", "fullNomPlain", "journalPh", "law", "shortForeign",
           "idValid", "idInvalid", "idNoPin", "idWinMax1", "unknown"],
}
FOCUS["antecedent"] = ["fullD", "fullE", "fullMc", "fullDon", "supraEdu", "supraRoe", "supraDon", "supraBoard",
                       "shortEdu", "shortSmith", "supraPunct"]
FOCUS["periods"] = ["fullNLRB", "fullNLRBplain", "supraNLRB", "shortNLRB", "supraNLRBplain", "idValid"]
FOCUS["reference"] = ["fullA", "fullA2", "fullB", "refA", "refA2", "refAlpha", "supraA", "supraAvol", "shortA_named", "idNoPin"]
FOCUS["name_only"] = ["fullAnte", "fullNob2", "refNob", "supraNob", "fullA", "refA"]
FOCUS["roman"] = ["fullRoman", "fullRoman2", "supraIota", "shortIota", "idNoPin", "idRoman"]
FOCUS_LMAX = {3: 4, 5: 5}     # base bound -> focus bound


def focus_sequences(base_lmax, shard, nshards):
    lmax = FOCUS_LMAX.get(base_lmax, 4)
    n = 0
    for name, kinds in FOCUS.items():
        for length in range(2, lmax + 1):
            for combo in itertools.product(kinds, repeat=length):
                if n % nshards == shard:
                    yield combo
                n += 1


def n_focus_sequences(base_lmax):
    lmax = FOCUS_LMAX.get(base_lmax, 4)
    return sum(len(k) ** i for k in FOCUS.values() for i in range(2, lmax + 1))


def sequences(length_max, shard, nshards, kinds=KINDS):
    """All sequences of length 1..length_max, partitioned across shards by
    the index of the sequence."""
    n = 0
    for length in range(1, length_max + 1):
        for combo in itertools.product(kinds, repeat=length):
            if n % nshards == shard:
                yield combo
            n += 1


def n_sequences(length_max, k=None):
    k = k or len(KINDS)
    return sum(k ** i for i in range(1, length_max + 1))


def _unused(length_max, k=len(KINDS)):
    return sum(k ** i for i in range(1, length_max + 1))


# ---------------------------------------------------------------- monitors

def describe(seq):
    return [(M.kind(c), c.matched_text(), c.metadata.__dict__.get("pin_cite"),
             c.metadata.__dict__.get("antecedent_guess")) for c in seq]


def groups_of(res):
    grp = {}
    for rsrc, lst in res.items():
        for c in lst:
            grp.setdefault(id(c), []).append(rsrc)
    return grp


def check_c06(seq, res, emit):
    """Faithful ordered partition."""
    from eyecite.models import FullCitation, UnknownCitation

    pos = {id(c): i for i, c in enumerate(seq)}
    seen = set()
    grp = {}
    for rsrc, lst in res.items():
        if not lst:
            emit("C06.empty_group", {})
            continue
        idx = [pos.get(id(c)) for c in lst]
        if None in idx:
            emit("C06.invented_object", dict(group=[M.kind(c) for c in lst]))
            continue
        if idx != sorted(idx):
            emit("C06.order", dict(indexes=idx))
        if len(set(idx)) != len(idx):
            emit("C06.repeated_in_group", dict(indexes=idx))
        if not isinstance(lst[0], FullCitation):
            emit("C06.first_not_full", dict(first=M.kind(lst[0]), indexes=idx))
        for c in lst:
            if id(c) in seen and id(c) in grp and grp[id(c)] is not rsrc:
                emit("C06.not_disjoint", dict(index=pos[id(c)]))
            seen.add(id(c))
            grp[id(c)] = rsrc
            if isinstance(c, UnknownCitation):
                emit("C06.unknown_present", dict(index=pos[id(c)]))
    fulls = [c for c in seq if isinstance(c, FullCitation)]
    for f in fulls:
        if id(f) not in grp:
            emit("C06.full_missing", dict(index=pos[id(f)], matched=f.matched_text()))
    for a, b in itertools.combinations(fulls, 2):
        ga, gb = grp.get(id(a)), grp.get(id(b))
        if ga is None or gb is None:
            continue
        share = ga is gb or (ga == gb and hash(ga) == hash(gb))
        same = refmodel.full_key(a) == refmodel.full_key(b)
        if share != same:
            emit("C06.full_sharing", dict(a=a.matched_text(), b=b.matched_text(), share=share,
                                          keys_equal=same))
    # the result is a mapping: every key still finds its own value (a key whose hash changed after it was
    # inserted does not)
    for rsrc, lst in res.items():
        try:
            found = res.get(rsrc)
        except Exception:
            found = None
        if found is not lst:
            emit("C06.key_does_not_find_its_value", dict(first=lst[0].matched_text() if lst else None))
    # keys must be pairwise distinct as dict keys and consistent with ==
    ks = list(res.keys())
    for x, y in itertools.combinations(ks, 2):
        if x == y:
            emit("C06.equal_keys_two_entries", {})
    return grp


def check_c07(seq, res, emit, max_pages, stats=None):
    """Only admissible attachments."""
    from eyecite.models import FullCitation, IdCitation

    grp = {}
    first_full = {}
    for rsrc, lst in res.items():
        for c in lst:
            grp[id(c)] = rsrc
        if lst:
            first_full[id(rsrc)] = lst[0]
    earlier = []
    for i, c in enumerate(seq):
        g = grp.get(id(c))
        if isinstance(c, FullCitation):
            earlier.append((c, refmodel.full_key(c)))
            continue
        if isinstance(c, IdCitation):
            ok = False
            why = None
            if i == 0:
                why = "no predecessor"
            else:
                gp = grp.get(id(seq[i - 1]))
                if gp is None:
                    why = "predecessor unresolved"
                elif g is not None and not (g is gp or g == gp):
                    why = "not the predecessor's resource"
                else:
                    ante = first_full.get(id(gp))
                    if ante is None or not isinstance(ante, FullCitation):
                        why = "predecessor's resource has no full antecedent"
                    elif refmodel.id_admissible(c, ante, max_pages):
                        ok = True
                    else:
                        why = "pin cite / placeholder rule"
            if g is not None and not ok:
                emit("C07.id_inadmissible", dict(index=i, pin=c.metadata.pin_cite, why=why))
            if stats is not None:
                stats("id_attached" if g is not None else ("id_left_unresolved" if not ok else "id_admissible_but_unresolved"))
            continue
        adm = refmodel.admissible_non_id(c, earlier)
        if g is not None:
            ante = first_full.get(id(g))
            gk = refmodel.full_key(ante) if isinstance(ante, FullCitation) else ("?", id(g))
            # the resource must have been introduced strictly earlier
            if gk not in adm:
                emit("C07.inadmissible_" + M.kind(c), dict(index=i, attached_to=str(gk)[:120],
                                                            admissible=[str(a)[:120] for a in adm]))
            if stats is not None:
                stats("attached:" + M.kind(c))
        elif stats is not None:
            stats(("left_unresolved:" if not adm else "admissible_but_unresolved:") + M.kind(c))


def canon(res, pos, upto=None):
    """Canonical value of a resolution restricted to indexes < upto."""
    # NOT sorted: the order of the mapping's keys is part of the value ("same resources, same members,
    # same order")
    out = []
    for rsrc, lst in res.items():
        idx = [pos[id(c)] for c in lst if id(c) in pos and (upto is None or pos[id(c)] < upto)]
        if idx:
            out.append((idx[0], tuple(idx), rsrc))
    return out


def check_c08(seq, res, emit, resolve, stats=None):
    """Online: every prefix resolves to the restriction; anaphora point
    backwards."""
    from eyecite.models import FullCitation

    pos = {id(c): i for i, c in enumerate(seq)}
    for rsrc, lst in res.items():
        idx = [pos.get(id(c)) for c in lst]
        if None in idx or not idx:
            continue
        fulls = [pos[id(c)] for c in lst if isinstance(c, FullCitation)]
        for c in lst:
            if not isinstance(c, FullCitation) and (not fulls or min(fulls) > pos[id(c)]):
                emit("C08.forward_reference", dict(index=pos[id(c)], fulls=fulls))
    for k in range(len(seq)):
        pr = resolve(seq[:k])
        got = canon(pr, pos)
        want = canon(res, pos, upto=k)
        if stats is not None:
            stats("prefix_pairs")
        if len(got) != len(want) or any(
                g[1] != w[1] or not (g[2] == w[2] and hash(g[2]) == hash(w[2])) for g, w in zip(got, want)):
            emit("C08.prefix_differs", dict(cut=k, prefix=[g[1] for g in got], restriction=[w[1] for w in want]))
            break


# ---------------------------------------------------------------- documents for extracted lists

def resolution_doc(rng):
    """Running text with several cases, colliding reporter/volume, and all
    reference kinds."""
    from eyecite.tokenizers import EDITIONS_LOOKUP
    used = []
    cases = []
    for i in range(rng.randint(1, 4)):
        P = gen.word(rng, used, 3); used.append(P)
        D = gen.word(rng, used, 3); used.append(D)
        r = rng.random()
        if r < 0.15:
            # multi-word party name; a later case may be named after one of its later words
            D = rng.choice(["Board of ", "City of ", "Department of ", "Estate of "]) + D
        elif r < 0.3 and cases:
            # named after a word of an earlier party: at its beginning here, inside it there
            prev = cases[-1]
            P = rng.choice([prev[1].split()[-1], prev[0], "Mc" + prev[0], prev[1].split()[-1][2:].capitalize() or P])
        names = [None]
        if cases and rng.random() < 0.4:
            rep, vol, names = cases[-1][2], cases[-1][3], cases[-1][5]
        elif rng.random() < 0.25:
            # a reporter string that is a variation of several editions; references may write any of the
            # edition names it stands for
            rep, vol = rng.choice(gen.DB.multi), rng.randint(1, 60)
            names = sorted({e.short_name for e in EDITIONS_LOOKUP[rep]} | {rep})
        else:
            rep, vol = rng.choice(["U.S.", "F.2d", "F.3d", "A.2d", "N.E.2d", "P.2d", "S.W.2d", "Mass.", "Cal. 3d", "U. S."]), rng.randint(1, 500)
        cases.append((P, D, rep, vol, rng.randint(1, 900), names))
    parts = []
    for _ in range(rng.randint(2, 10)):
        P, D, rep, vol, page, names = rng.choice(cases)
        rep2 = rng.choice([n for n in names if n] or [rep]) if rng.random() < 0.5 else rep
        r = rng.random()
        year = rng.choice([rng.randint(1950, 2020), rng.randint(1750, 1900)])
        if r < 0.05:
            parts.append(f"The rule was stated in {vol} {rep} {page} ({year})")   # bare full citation
        elif r < 0.08:
            # year before the citation, and a parallel citation that inherits it
            o = rng.choice(cases)
            parts.append(f"{P} v. {D} ({year}) {vol} {rep} {page}, {o[3]} {o[2]} {o[4]}")
        elif r < 0.11:
            o = rng.choice(cases)
            parts.append(f"{P} v. {D}, {vol} {rep} {page}, {o[3]} {o[2]} {o[4]} ({year})")
        elif r < 0.3:
            parts.append(f"{P} v. {D}, {vol} {rep2} {page} ({year})")
        elif r < 0.45:
            parts.append(f"{rng.choice([P, D, D.split()[-1], 'Foo'])}, {vol} {rep2} at {page + rng.randint(0, 30)}")
        elif r < 0.55:
            parts.append(f"{vol} {rep2} at {page + 1}")
        elif r < 0.7:
            parts.append(f"{rng.choice([P, D, D.split()[-1], D.split()[0], 'Omegaxo', '...', '--', P.lower()])}, supra, at {page + rng.randint(0, 30)}")
        elif r < 0.85:
            parts.append(f"Id. at {page + rng.choice([0, 5, 150, 151, 400, -3])}")
        elif r < 0.9:
            parts.append(rng.choice(["§ 12 of the Act", "1 Minn. L. Rev. ___ (1990)", "Mass. Gen. Laws ch. 1, § 2",
                                     f"{P} v. {D}, {vol} {rep} ___ (2020)"]))
        else:
            parts.append(f"In {rng.choice([P, D])} at {page + 2} the court")
    return ". ".join(parts) + "."


COLLISION_KINDS = ["fullA", "fullA2", "fullAdup", "fullB", "fullD", "fullE", "fullMc", "fullDon", "supraA", "supraB", "supraEdu",
                   "supraRoe", "supraDon", "supraBoard", "shortEdu", "shortSmith", "shortA_named", "refA", "refA2", "refAlpha",
                   "idValid", "idNoPin", "fullAnte", "fullNob2", "refNob", "supraNob", "supraAvol"]


def collision_sequences(rng, n):
    """Random sequences of length 5-9 over the kinds whose party names collide (the same name in several
    cases, repeated full citations of one case in between): memoised or cached answers of the name lookups
    show on such lists, which are too long for the exhaustive focus alphabets."""
    for _ in range(n):
        yield tuple(rng.choice(COLLISION_KINDS) for _ in range(rng.randint(5, 9)))


def long_lists(protos, rng, n):
    """A few very long lists (more than 300 citations): bookkeeping that is keyed on the length of the
    whole list, caps and caches only show there."""
    allk = list(protos)
    for _ in range(n):
        yield tuple(rng.choice(allk) for _ in range(rng.randint(301, 420)))
