"""C07 Resolution never guesses between candidates; id. follows only its
predecessor."""
import random

from vmon import gen
from vmon import monitors as M
from vmon.props import _resolve as R

LEVEL = "exploration"
LMAX = {"quick": 3, "thorough": 5}
SHARDS = {"quick": 8, "thorough": 14}
NDOC = {"quick": 400, "thorough": 25000}
EXHAUSTIVE = {"quick": True, "thorough": True}
RULE = ("two focus alphabets (short-form disambiguation: 10 kinds; id./placeholder/roman/nominative pages: 14 kinds) enumerated to length 4 (quick) / 5 (thorough); EXHAUSTIVE over all sequences of length <= L (L=3 quick, 5 thorough) over the 21-kind alphabet of "
        "C06 (real extracted objects), plus random sequences of length 4..9 over 45 kinds that add the pin "
        "window boundaries (page-1, page, page+MAX, page+MAX+1, page+100000, '*10', roman, paragraph pins), "
        "a second named case, a variation-spelled short form and a name-less duplicate, plus lists extracted "
        "from generated ambiguous multi-case documents; oracle = reference model written from the statement "
        "computing the admissible resource set of every non-full citation; only attachments outside that "
        "set are violations; non-trivial = sequence with >= 1 non-full citation after >= 1 full citation; "
        "distinct = distinct kind sequence / document")
ASSUMPTIONS = ["antecedent names are normalised with eyecite.utils.strip_punct in both the model and the code",
               "the pin window constant is read from eyecite.resolve.MAX_OPINION_PAGE_COUNT; a pin 100000 pages "
               "beyond the first page is rejected by the model whatever the constant"]
FLOORS = {"quick": {"sequences": R.n_sequences(3), "focus_sequences": R.n_focus_sequences(3), "attached:ShortCaseCitation": 300, "attached:SupraCitation": 200,
                    "attached:ReferenceCitation": 100, "id_attached": 300, "id_left_unresolved": 500,
                    "left_unresolved:ShortCaseCitation": 500, "left_unresolved:SupraCitation": 500,
                    "extracted_lists": 500},
          "thorough": {"sequences": R.n_sequences(5), "focus_sequences": R.n_focus_sequences(5), "id_attached": 100000, "extracted_lists": 30000}}


def plan(tier, seed):
    n = SHARDS[tier]
    return [dict(i=i, nshards=n, lmax=LMAX[tier], ndoc=NDOC[tier], seed=seed * 1000 + i) for i in range(n)]


def classify(v):
    return None


def check_seq(seq, case, rec, resolve, max_pages):
    try:
        res = resolve(seq)
    except Exception as e:
        rec.count("resolve_raised:" + type(e).__name__)
        return None
    rec.ev()
    R.check_c07(seq, res, lambda mon, obs: rec.violation(mon, case, observed=dict(obs, list=R.describe(seq)[:12])),
                max_pages, stats=rec.count)
    return res


def protos_all():
    import eyecite.resolve as ER
    protos = R.build_protos(extra=True)
    protos.update(R.dynamic_id_kinds(protos, ER.MAX_OPINION_PAGE_COUNT))
    return protos, ER.MAX_OPINION_PAGE_COUNT


def run_shard(spec, rec):
    from eyecite import get_citations, resolve_citations

    protos, maxp = protos_all()
    rec.count("max_opinion_page_count_observed", 0)
    for combo in R.sequences(spec["lmax"], spec["i"], spec["nshards"]):
        check_seq(R.instantiate(protos, combo), dict(sequence=list(combo)), rec, resolve_citations, maxp)
        rec.count("sequences")
        if any(k.startswith("full") for k in combo[:-1]):
            rec.nontrivial(combo)
    for combo in R.focus_sequences(spec["lmax"], spec["i"], spec["nshards"]):
        check_seq(R.instantiate(protos, combo), dict(sequence=list(combo)), rec, resolve_citations, maxp)
        rec.count("focus_sequences")
        rec.nontrivial(combo)
    for combo in R.long_lists(protos, random.Random(spec["seed"] + 31), 2):
        check_seq(R.instantiate(protos, combo), dict(sequence=list(combo)), rec, resolve_citations, maxp)
        rec.count("long_lists")
    for combo in R.collision_sequences(random.Random(spec["seed"] + 57), 400):
        check_seq(R.instantiate(protos, combo), dict(sequence=list(combo)), rec, resolve_citations, maxp)
        rec.count("collision_sequences")
    rng = random.Random(spec["seed"])
    allk = list(protos)
    fulls = [k for k in allk if k.startswith("full")]
    ids = [k for k in allk if k.startswith("id")]
    for _ in range(spec["ndoc"]):
        n = rng.randint(4, 9)
        combo = []
        for j in range(n):
            r = rng.random()
            combo.append(rng.choice(fulls) if r < 0.3 else rng.choice(ids) if r < 0.55 else rng.choice(allk))
        check_seq(R.instantiate(protos, combo), dict(sequence=combo), rec, resolve_citations, maxp)
        rec.count("random_sequences")
        rec.nontrivial(combo)
        if len(rec.samples) < 2:
            rec.sample(dict(sequence=combo))
    for k in range(spec["ndoc"]):
        text = R.resolution_doc(rng) if k % 4 else gen.dense_doc(rng, hostile=0.2)
        try:
            cs = get_citations(text)
        except Exception:
            continue
        if check_seq(cs, dict(text=text), rec, resolve_citations, maxp) is not None:
            rec.count("extracted_lists")
            rec.nontrivial(text)
            if len(rec.samples) < 4 and len(cs) > 4:
                rec.sample(dict(text=text, kinds=[M.kind(c) for c in cs]))


def replay(w, rec):
    from eyecite import get_citations, resolve_citations
    protos, maxp = protos_all()
    c = w["case"]
    if "sequence" in c:
        check_seq(R.instantiate(protos, c["sequence"]), c, rec, resolve_citations, maxp)
    else:
        check_seq(get_citations(c["text"]), c, rec, resolve_citations, maxp)
