"""C10 Annotations enclose exactly the cited characters, in order."""
import random
from bisect import bisect_left, bisect_right

from vmon import instrument
from vmon.props import _annot as A

LEVEL = "exploration"
RULE = ("(a) no source text: random span sets over plain texts (3 modes on bracket-free text, unchecked on "
        "text containing tags): every non-empty span that does not overlap an earlier one must appear "
        "exactly once as before+text[s:e]+after, in span order; (b) forced alignment: source = plain + "
        "inserted characters foreign to the plain alphabet (tags, tabs, newlines), so the minimal diff is "
        "unique and the generator's position table gives the exact expected output (default diff engine, "
        "sorted non-overlapping non-empty spans incl. touching ones and spans adjacent to inserted material "
        "on either side); (c) SpanUpdater.update swept over every offset 0..len(before) with both bisect "
        "functions and both diff engines on arbitrary string pairs: monotone and within [0, len(after)]; "
        "non-trivial = case with >= 1 annotation or a pair with >= 2 diff ranges; distinct = distinct inputs")
ASSUMPTIONS = ["difflib is excluded from the exact clause (b): it may pick a non-minimal cross alignment on "
               "repeated substrings; the statement demands only monotone/in-range of it",
               "forced alignment relies on the inserted characters not occurring in the plain alphabet (asserted per case)"]
FLOORS = {"quick": {"nosrc_cases": 3000, "nosrc_annotations_checked": 4000, "forced_cases": 5000,
                    "forced_annotations": 5000, "periodic_cases": 1500, "same_plain_other_source": 1500, "adjacent_left": 500, "adjacent_right": 500,
                    "touching_pairs": 300, "updater_pairs:dmp": 1500, "updater_pairs:difflib": 1500,
                    "updater_offsets_swept": 100000, "multi_range_pairs": 2000,
                    "unique_char_cases": 3000, "unique_char_cases_all_slices_balanced": 500, "unique:difflib:unchecked": 5000,
                    "unique:difflib:skip": 800, "unique:dmp:wrap": 400},
          "thorough": {"nosrc_cases": 150000, "forced_cases": 300000, "adjacent_left": 30000,
                       "adjacent_right": 30000, "updater_pairs:dmp": 80000, "updater_pairs:difflib": 80000}}
N = {"quick": 4000, "thorough": 100000}
SHARDS = {"quick": 8, "thorough": 14}
PROBES = [("abc def", "Xabc ZZ def"), ("", "abc"), ("abc", ""), ("", ""), ("abc", "abc"), ("aXbXc", "abc"),
          ("abc", "XaXbXcX"), ("ab", "ba")]


def plan(tier, seed):
    return [dict(i=i, n=N[tier], seed=seed * 1000 + i, probes=(i == 0)) for i in range(SHARDS[tier])]


def classify(v):
    return None


def nosrc(rng, rec):
    from eyecite import annotate_citations
    p = A.plain_text(rng, 1, 40)
    tagged = rng.random() < 0.3
    if tagged:
        p, _ = A.source_from(rng, p)
    sp = A.random_spans(rng, len(p))
    anns = A.annotations(sp)
    modes = ("unchecked",) if tagged else ("unchecked", "skip", "wrap")
    for mode in modes:
        case = dict(plain=p, spans=sp, mode=mode, clause="nosrc")
        try:
            out = annotate_citations(p, anns, unbalanced_tags=mode)
        except Exception as e:
            rec.count("raised:" + type(e).__name__)
            continue
        rec.ev()
        rec.count("nosrc_cases")
        check_nosrc(p, anns, out, rec, case)
    if sp:
        rec.nontrivial(["nosrc", p, sp])


def check_nosrc(p, anns, out, rec, case):
    order = sorted(anns)
    max_end = 0
    positions = []
    for (a, b), before, after in order:
        clean = a < b and a >= max_end
        max_end = max(max_end, b)
        if not clean:
            continue
        rec.count("nosrc_annotations_checked")
        piece = before + p[a:b] + after
        n = out.count(piece)
        if n != 1:
            rec.violation("C10.nosrc_not_exactly_once", case, observed=dict(piece=piece, times=n, out=out[:300]))
            continue
        positions.append(out.index(piece))
    if positions != sorted(positions):
        rec.violation("C10.nosrc_order", case, observed=dict(positions=positions, out=out[:300]))


def forced(rng, rec):
    from eyecite import annotate_citations
    if rng.random() < 0.3:
        p = A.periodic_text(rng)
        s, pos = A.source_from(rng, p, rate=rng.choice([0.02, 0.05, 0.1]))
        rec.count("periodic_cases")
    else:
        p = A.plain_text(rng, 1, 40)
        s, pos = A.source_from(rng, p, rate=rng.choice([0.05, 0.15, 0.3]))
    if s == p:
        return
    assert not (set("".join(A.INS)) & set(p))
    sp = A.disjoint_spans(rng, len(p))
    anns = A.annotations(sp)
    case = dict(plain=p, source=s, spans=sp, clause="forced")
    try:
        out = annotate_citations(p, anns, source_text=s)
    except Exception as e:
        rec.count("raised:" + type(e).__name__)
        return
    rec.ev()
    rec.count("forced_cases")
    rec.count("forced_annotations", len(sp))
    second = A.relocate_one_insert(rng, p, s, pos) if rng.random() < 0.5 else None
    exp, last = [], 0
    for i, (a, b) in enumerate(sp):
        sa, sb = pos[a], pos[b - 1] + 1
        if sa > 0 and (a == 0 or pos[a - 1] + 1 < sa):
            rec.count("adjacent_left")       # inserted material directly before the span
        if (b < len(p) and sb < pos[b]) or (b == len(p) and sb < len(s)):
            rec.count("adjacent_right")
        if i and sp[i - 1][1] == a:
            rec.count("touching_pairs")
        exp.append(s[last:sa] + f"«{i}»" + s[sa:sb] + f"«/{i}»")
        last = sb
    exp = "".join(exp) + s[last:]
    if out != exp:
        rec.violation("C10.forced_alignment", case, observed=out[:400], expected=exp[:400])
    if second is not None:
        # history: the same plain text is annotated onto another source of the same length right afterwards
        s2, pos2 = second
        try:
            out2 = annotate_citations(p, anns, source_text=s2)
        except Exception as e:
            rec.count("raised:" + type(e).__name__)
            out2 = None
        if out2 is not None:
            rec.count("same_plain_other_source")
            exp2, last2 = [], 0
            for i, (a, b) in enumerate(sp):
                sa, sb = pos2[a], pos2[b - 1] + 1
                exp2.append(s2[last2:sa] + f"«{i}»" + s2[sa:sb] + f"«/{i}»")
                last2 = sb
            exp2 = "".join(exp2) + s2[last2:]
            if out2 != exp2:
                rec.violation("C10.forced_alignment_after_other_source", dict(case, source2=s2),
                              observed=out2[:400], expected=exp2[:400])
    if sp:
        rec.nontrivial(["forced", p, s, sp])
    if len(rec.samples) < 2 and len(sp) >= 2:
        rec.sample(dict(case, output=out))


TAG_RX = __import__("re").compile(r"<(/?)(\w+)(/?)>")


def slice_balanced(t):
    """Own judge of well-formedness for the inserted tag set (complete tags only)."""
    if "<" in TAG_RX.sub("", t) or ">" in TAG_RX.sub("", t):
        return False
    stack = []
    for close, name, selfc in TAG_RX.findall(t):
        if selfc:
            continue
        if not close:
            stack.append(name)
        elif not stack or stack.pop() != name:
            return False
    return not stack


def forced_unique(rng, rec):
    """Plain texts in which every character occurs once, source = plain + foreign insertions: every common
    subsequence alignment is forced, so the exact clause holds for ANY diff engine - checked for difflib
    too, twice in a row (history), and in 'skip' and 'wrap' mode whenever every span's source slice is
    balanced (then those modes have nothing to repair and must place the annotation like 'unchecked')."""
    from eyecite import annotate_citations
    k = rng.randint(2, min(40, len(set(A.PLAIN))))
    p = "".join(rng.sample(sorted(set(A.PLAIN)), k))
    s, pos = A.source_from(rng, p, rate=rng.choice([0.05, 0.15, 0.3]))
    if s == p:
        return
    sp = A.disjoint_spans(rng, len(p))
    anns = A.annotations(sp)
    exp, last = [], 0
    for i, (a, b) in enumerate(sp):
        sa, sb = pos[a], pos[b - 1] + 1
        exp.append(s[last:sa] + f"«{i}»" + s[sa:sb] + f"«/{i}»")
        last = sb
    exp = "".join(exp) + s[last:]
    balanced = all(slice_balanced(s[pos[a]:pos[b - 1] + 1]) for a, b in sp)
    rec.count("unique_char_cases")
    if balanced and sp:
        rec.count("unique_char_cases_all_slices_balanced")
    for dmp in (True, False, False):
        for mode in (("unchecked", "skip", "wrap") if balanced else ("unchecked",)):
            case = dict(plain=p, source=s, spans=sp, clause="forced_unique", dmp=dmp, mode=mode)
            try:
                out = annotate_citations(p, anns, source_text=s, use_dmp=dmp, unbalanced_tags=mode)
            except Exception as e:
                rec.count("raised:" + type(e).__name__)
                continue
            rec.ev()
            rec.count(f"unique:{'dmp' if dmp else 'difflib'}:{mode}")
            if out != exp:
                rec.violation("C10.forced_alignment_unique_chars", case, observed=out[:400], expected=exp[:400])
    if sp:
        rec.nontrivial(["unique", p, s, sp])


def sweep(a, b, rec, tag):
    from eyecite.annotate import SpanUpdater
    for dmp in (True, False):
        eng = "dmp" if dmp else "difflib"
        case = dict(before=a, after=b, dmp=dmp, clause="updater")
        try:
            u = SpanUpdater(a, b, use_dmp=dmp)
        except Exception as e:
            rec.violation("C10.updater_raised." + type(e).__name__, case, observed=str(e)[:200])
            continue
        rec.ev()
        rec.count("updater_pairs:" + eng)
        if len(u.offsets) >= 2:
            rec.count("multi_range_pairs")
            rec.nontrivial(["upd", a, b, dmp])
        for bis in (bisect_left, bisect_right):
            prev = 0
            for x in range(len(a) + 1):
                try:
                    y = u.update(x, bis)
                except Exception as e:
                    rec.violation("C10.update_raised." + type(e).__name__, dict(case, offset=x, bisect=bis.__name__),
                                  observed=str(e)[:200])
                    break
                rec.count("updater_offsets_swept")
                if not (0 <= y <= len(b)):
                    rec.violation("C10.update_out_of_range", dict(case, offset=x, bisect=bis.__name__), observed=y,
                                  expected=[0, len(b)])
                    break
                if y < prev:
                    rec.violation("C10.update_not_monotone", dict(case, offset=x, bisect=bis.__name__),
                                  observed=dict(value=y, previous=prev))
                    break
                prev = y


def run_shard(spec, rec):
    instrument.install(rec, what=())
    rng = random.Random(spec["seed"])
    if spec.get("probes"):
        for a, b in PROBES:
            sweep(a, b, rec, "probe")
    for k in range(spec["n"]):
        nosrc(rng, rec)
        for _ in range(2):
            forced(rng, rec)
        forced_unique(rng, rec)
        a = A.plain_text(rng)
        r = rng.random()
        if r < 0.4:
            b = A.plain_text(rng)
        elif r < 0.7:
            b, _ = A.source_from(rng, a)
        else:
            b = A.mutated_source(rng, a)
        if rng.random() < 0.3:
            a, b = b, a
        sweep(a, b, rec, "random")


def replay(w, rec):
    from eyecite import annotate_citations
    c = w["case"]
    if c.get("clause") == "updater":
        sweep(c["before"], c["after"], rec, "replay")
    elif c.get("clause") == "nosrc":
        sp = [tuple(x) for x in c["spans"]]
        anns = A.annotations(sp)
        check_nosrc(c["plain"], anns, annotate_citations(c["plain"], anns, unbalanced_tags=c["mode"]), rec, c)
    elif c.get("clause") == "forced_unique":
        sp = [tuple(x) for x in c["spans"]]
        for _ in range(2):      # the witness may need the same pair to have been annotated before
            out = annotate_citations(c["plain"], A.annotations(sp), source_text=c["source"], use_dmp=c["dmp"],
                                     unbalanced_tags=c["mode"])
        if out[:400] != w.get("expected"):
            rec.violation("C10.forced_alignment_unique_chars", c, observed=out[:400], expected=w.get("expected"))
    else:
        sp = [tuple(x) for x in c["spans"]]
        out = annotate_citations(c["plain"], A.annotations(sp), source_text=c["source"])
        if out != w.get("expected"):
            rec.violation("C10.forced_alignment", c, observed=out, expected=w.get("expected"))
