"""C13 The default tokenizer's Aho-Corasick pre-filter is lossless."""
import random
import re

from vmon import gen, instrument
from vmon import monitors as M
from vmon.rxgen import cover, sample

LEVEL = "exploration"
RULE = ("W1: for EVERY extractor built from the installed reporters-db (about 6,800 patterns) members of its "
        "pattern's language are generated from the regex parse tree with BRANCH COVERAGE (every alternative of "
        "every alternation, i.e. every reporter spelling of every pattern, is taken at least once; about 12 "
        "members per pattern) plus k random ones (k=2 quick, 16 thorough; case-flipped and "
        "with the non-ASCII case variants of i/s/k substituted for case-insensitive extractors), re-validated "
        "with the real compiled regex, then: the extractor must be in get_extractors(member) and the member "
        "must contain one of the extractor's filter strings; W2/W3 documents: get_extractors(text) must "
        "contain every extractor whose compiled pattern finds a match, and AhocorasickTokenizer(extractors=L)"
        ".tokenize(t) must equal Tokenizer(extractors=L).tokenize(t) (tokens, offsets, groups, editions) for "
        "the full list and random sub-lists; non-trivial = validated member / document with >= 1 matching "
        "extractor; distinct = distinct (extractor index, member) or (list, text)")
ASSUMPTIONS = ["the regular-language-inclusion reading of the property is a static for-all over each pattern's "
               "language; runtime monitoring decides it only on the sampled members (stated gap, DESIGN §4/C13)",
               "every sampled member is validated by the real compiled regex before use"]
FLOORS = {"quick": {"extractors_total": 6000, "extractors_sampled": 6000, "members_checked": 50000, "branch_cover_members": 50000,
                    "doc_lossless_checks": 150, "stream_equal_full": 150, "stream_equal_sublist": 600, "long_documents": 500, "member_token_checks": 12000, "stretched_members": 300, "sublist_composition:0": 8, "sublist_composition:1": 8,
                    "sublist_composition:2": 8, "sublist_composition:3": 8,
                    "case_insensitive_members": 150, "fold_substituted_members": 40},
          "thorough": {"extractors_sampled": 6000, "members_checked": 300000, "doc_lossless_checks": 3000,
                       "stream_equal_full": 3000, "stream_equal_sublist": 20000}}
K = {"quick": 2, "thorough": 48}
NDOC = {"quick": 25, "thorough": 300}
NSUB = {"quick": 90, "thorough": 1800}
SHARDS = {"quick": 8, "thorough": 14}
SPECIAL = {"s": "ſ", "S": "ſ", "k": "K", "K": "K", "i": "ı", "I": "İ"}
PROBES = ["Foo, ſupra, at 5", "ıd. at 5", "İd. at 5", "cert. denıed", "ſee Foo", "5 K.B. 3 Id.",
          "AFFIRMED. ID. at 5; SUPRA", "See foo, 123 U.S. 456. Id."]


def plan(tier, seed):
    n = SHARDS[tier]
    return [dict(i=i, nshards=n, k=K[tier], ndoc=NDOC[tier], nsub=NSUB[tier], seed=seed * 1000 + i, probes=(i == 0))
            for i in range(n)]


def classify(v):
    return None


STRETCH = [("long_blank", " ", " " * 70), ("long_digits", None, "1" * 70), ("long_newline_blank", ", ", ",\n" + " " * 66)]


def stretched(e, s, rng):
    """Variants of a member with a long run inside it (white space the pattern takes with \s*, a volume of
    seventy digits): still members, but much longer than any filter string."""
    out = []
    for name, old, new in STRETCH:
        if old is None:
            m = re.search(r"\d+", s)
            cand = s[:m.start()] + new + s[m.end():] if m else None
        else:
            i = s.find(old)
            cand = s[:i] + new + s[i + len(old):] if i >= 0 else None
        if cand and e.compiled_regex.search(cand):
            out.append(cand)
    return out


def members(e, rng, k, rec):
    """Branch coverage first: every alternative of every alternation of the pattern (in particular every
    reporter spelling of the pattern's reporter group) is taken at least once; then random members."""
    out = []
    tries = 0
    try:
        pool = list(cover(e.regex, rng, e.flags, max_samples=max(14, 6 * k)))
    except Exception:
        pool = []
    rec.count("branch_cover_members", len(pool))
    while (pool or len(out) < k) and tries < k * 5 + 100:
        tries += 1
        try:
            s = pool.pop() if pool else sample(e.regex, rng, e.flags)
        except Exception:
            break
        if e.flags & re.I and rng.random() < 0.5:
            s2 = "".join(SPECIAL.get(c, c) if rng.random() < 0.3 else c for c in s)
            if s2 != s and e.compiled_regex.search(s2):
                s = s2
                rec.count("fold_substituted_members")
        if rng.random() < 0.5:
            s = rng.choice(["", "See ", "x ", "(", "“"]) + s + rng.choice(["", ".", " and", ")", "”"])
        if e.compiled_regex.search(s):
            out.append(s)
    return out


def stream(tokres):
    alltok, cit = tokres
    return ([M.ser_token(t) if not isinstance(t, str) else t for t in alltok], [(i, M.ser_token(t)) for i, t in cit])


def compare_streams(extractors, text, rec, label, case):
    from eyecite.tokenizers import AhocorasickTokenizer, Tokenizer
    try:
        b = stream(Tokenizer(extractors=list(extractors)).tokenize(text))
    except Exception as e:
        rec.count("reference_tokenize_raised:" + type(e).__name__)
        return
    try:
        a = stream(AhocorasickTokenizer(extractors=list(extractors)).tokenize(text))
    except Exception as e:
        rec.violation("C13.filtered_tokenizer_raised." + type(e).__name__, case, observed=str(e)[:200])
        return
    rec.ev()
    rec.count(label)
    if a != b:
        da = [t for t in a[1] if t not in b[1]]
        db = [t for t in b[1] if t not in a[1]]
        rec.violation("C13.stream_differs", case, observed=dict(only_filtered=da[:4], only_reference=db[:4]))


def run_shard(spec, rec):
    instrument.install(rec, what=())
    from eyecite.tokenizers import EXTRACTORS, AhocorasickTokenizer, default_tokenizer
    rng = random.Random(spec["seed"])
    ac = default_tokenizer
    rec.count("extractors_total", len(EXTRACTORS) if spec["i"] == 0 else 0)
    index = {id(e): i for i, e in enumerate(EXTRACTORS)}
    if spec.get("probes"):
        for p in PROBES:
            lossless_doc(ac, EXTRACTORS, p, rec, index)
            compare_streams(EXTRACTORS, p, rec, "stream_equal_full", dict(text=p, extractors="all"))
    # W1: every extractor (partitioned over shards)
    for idx, e in enumerate(EXTRACTORS):
        if idx % spec["nshards"] != spec["i"]:
            continue
        # the few case-insensitive extractors (id., supra, stop words) get many
        # more members: they are where case folding matters
        ms = members(e, rng, spec["k"] * (40 if e.flags & re.I else 1), rec)
        if ms and idx % 3 == spec["seed"] % 3:
            st = stretched(e, ms[0], rng)
            rec.count("stretched_members", len(st))
            ms = ms + st
        if ms:
            rec.count("extractors_sampled")
        else:
            rec.count("extractors_without_member")
        for s in ms:
            rec.ev()
            rec.count("members_checked")
            if e.flags & re.I:
                rec.count("case_insensitive_members")
            rec.nontrivial([idx, s])
            got = ac.get_extractors(s)
            if not any(x is e for x in got):
                rec.violation("C13.own_extractor_filtered_out", dict(extractor=idx, regex=e.regex[:200], text=s,
                                                                   strings=list(e.strings)[:5], flags=int(e.flags)))
            # ... and the filtered tokenizer really yields every token the member's own pattern finds in it
            # (a member may be long: long reporter names, long digit runs, long white space inside)
            try:
                have = {(type(t).__name__, t.start, t.end) for t in ac.extract_tokens(s)}
                lost = [m.span(1) for m in e.get_matches(s)
                        if (type(e.get_token(m)).__name__, e.get_token(m).start, e.get_token(m).end) not in have]
            except Exception as x:
                rec.count("member_tokens_raised:" + type(x).__name__)
                lost = []
            rec.count("member_token_checks")
            if lost:
                rec.violation("C13.member_token_lost", dict(extractor=idx, regex=e.regex[:200], text=s), observed=lost[:3])
            if e.strings:
                fold = lambda x: x.translate({0x130: "i", 0x131: "i", 0x17f: "s", 0x212a: "k"}).lower()  # noqa
                hay = fold(s) if e.flags & re.I else s
                if not any((fold(x) if e.flags & re.I else x) in hay for x in e.strings):
                    rec.violation("C13.member_without_filter_string", dict(extractor=idx, regex=e.regex[:200], text=s,
                                                                         strings=list(e.strings)[:5]))
        if len(rec.samples) < 3 and ms and idx % 500 == spec["i"]:
            rec.sample(dict(extractor=idx, regex=e.regex[:120], members=ms[:2]))
    # documents: full lossless check + stream equality with the full list
    for _ in range(spec["ndoc"]):
        text = gen.dense_doc(rng, rec=None, maxfrag=5)
        lossless_doc(ac, EXTRACTORS, text, rec, index)
        compare_streams(EXTRACTORS, text, rec, "stream_equal_full", dict(text=text, extractors="all"))
    long_documents(spec, rec, ac, EXTRACTORS)
    # custom sub-lists
    specials = EXTRACTORS[-5:]
    body = range(len(EXTRACTORS) - 5)
    nostr = [i for i in body if not EXTRACTORS[i].strings]
    ci = [i for i in body if EXTRACTORS[i].strings and EXTRACTORS[i].flags & re.I]
    cs = [i for i in body if EXTRACTORS[i].strings and not EXTRACTORS[i].flags & re.I]
    for round_no in range(spec["nsub"] // 6):
        # compositions in which one of the two search automata (or both) has nothing to search for come
        # round regularly; the rest are random mixtures
        comp = round_no % 8
        if comp == 0:
            sub_idx = []                                                     # id/supra/stop words only
        elif comp == 1:
            sub_idx = sorted(rng.sample(nostr, min(len(nostr), rng.randint(1, 10))))   # + patterns without filter string
        elif comp == 2:
            sub_idx = sorted(rng.sample(ci, min(len(ci), rng.randint(1, 20))))          # case-insensitive strings only
        elif comp == 3:
            sub_idx = sorted(rng.sample(cs, rng.randint(1, 20)))                        # case-sensitive strings only
        else:
            sub_idx = sorted(rng.sample(body, rng.randint(5, 120)))
        rec.count(f"sublist_composition:{min(comp, 4)}")
        keep_specials = [x for x in specials if rng.random() < 0.7] if comp not in (0, 1) else list(specials)
        if comp == 3 and rng.random() < 0.5:
            keep_specials = []
        sub = [EXTRACTORS[i] for i in sub_idx] + keep_specials
        if rng.random() < 0.3:
            rng.shuffle(sub)           # a custom list need not follow the default order
        actok = AhocorasickTokenizer(extractors=list(sub))
        for _ in range(6):
            r = rng.random()
            if r < 0.5:
                parts = []
                for e in rng.sample(sub, min(len(sub), 3)):
                    parts += members(e, rng, 1, rec)
                text = rng.choice([" ", "; ", ". "]).join(parts) + rng.choice(["", ". Id. at 5", " see supra"])
            else:
                text = gen.dense_doc(rng, maxfrag=4)
            case = dict(text=text, extractors=sub_idx, specials=len(sub) - len(sub_idx))
            compare_streams(sub, text, rec, "stream_equal_sublist", case)
            # the filter of the custom tokenizer must be lossless for its own list
            try:
                got = actok.get_extractors(text)
            except Exception as e:
                rec.violation("C13.get_extractors_raised." + type(e).__name__, case, observed=str(e)[:200])
                continue
            ids = {id(x) for x in got}
            for e in sub:
                if id(e) not in ids and e.compiled_regex.search(text):
                    rec.violation("C13.sublist_filter_lossy", case, observed=dict(regex=e.regex[:160]))
            if any(id(x) not in {id(y) for y in sub} for x in got):
                rec.violation("C13.sublist_foreign_extractor", case,
                              observed=dict(n_foreign=sum(1 for x in got if id(x) not in {id(y) for y in sub})))


def long_text(seed, limit, rep, b, j):
    r = random.Random(f"{seed}-{limit}-{rep}-{b}-{j}")
    snippet = f"100 {rep} 200"
    start = limit - j - b
    head = gen.filler(r, start + 50)[:start - 1] + " "
    return head + snippet + " " + gen.filler(r, r.randint(50, 3000))


def long_documents(spec, rec, ac, EXTRACTORS):
    """Long texts (up to ~131,000 characters) with one citation to a multi-word reporter planted so that
    the blank inside the reporter name sits just before a round offset (powers of two from 1,024, and
    10,000 / 100,000): whatever a search does in blocks, the planted citation's own extractors must still
    be selected. The reporter occurs nowhere else in the text."""
    rng = random.Random(spec["seed"] + 4242)
    reps = ["S. Ct.", "F. Supp. 2d", "L. Ed. 2d", "Cal. App. 4th", "Ill. App. 3d"] + \
        [x for x in rng.sample(gen.DB.std, 40) if " " in x][:6]
    limits = [2 ** k for k in range(10, 18)] + [10000, 100000]
    n = 0
    for limit in limits:
        for rep in reps:
            n += 1
            if n % spec["nshards"] != spec["i"]:
                continue
            snippet = f"100 {rep} 200"
            own = [e for e in EXTRACTORS if (not e.strings or any(x in snippet for x in e.strings))
                   and e.compiled_regex.search(" " + snippet + " ")]
            if not own:
                continue
            blanks = [i for i, ch in enumerate(snippet) if ch == " "][1:-1]     # blanks inside the reporter name
            for b in blanks[:2]:
                for j in (1, 2, 3, 4, 5):
                    start = limit - j - b          # the inner blank then sits at offset limit - j
                    if start < 10:
                        continue
                    text = long_text(spec["seed"], limit, rep, b, j)
                    assert text[start:start + len(snippet)] == snippet
                    try:
                        got = {id(x) for x in ac.get_extractors(text)}
                    except Exception as e:
                        rec.violation("C13.get_extractors_raised." + type(e).__name__, dict(long_document=dict(limit=limit, reporter=rep, j=j)),
                                      observed=str(e)[:200])
                        continue
                    rec.ev()
                    rec.count("long_documents")
                    for e in own:
                        if id(e) not in got:
                            rec.violation("C13.own_extractor_filtered_out_in_long_text",
                                          dict(long_document=dict(limit=limit, reporter=rep, j=j, inner_blank=b, length=len(text), seed=spec["seed"])),
                                          observed=dict(regex=e.regex[:160], strings=list(e.strings)[:4]))
                            break


def lossless_doc(ac, extractors, text, rec, index):
    got = ac.get_extractors(text)
    ids = {id(x) for x in got}
    n = 0
    for e in extractors:
        if e.compiled_regex.search(text):
            n += 1
            if id(e) not in ids:
                rec.violation("C13.filter_lossy", dict(text=text, extractor=index[id(e)], regex=e.regex[:160],
                                                       strings=list(e.strings)[:5]))
    rec.ev()
    rec.count("doc_lossless_checks")
    rec.count("matching_extractors_seen", n)
    if n:
        rec.nontrivial(["doc", text])


def replay(w, rec):
    from eyecite.tokenizers import EXTRACTORS, default_tokenizer
    c = w["case"]
    index = {id(e): i for i, e in enumerate(EXTRACTORS)}
    if "long_document" in c:
        d = c["long_document"]
        text = long_text(d["seed"], d["limit"], d["reporter"], d["inner_blank"], d["j"])
        snippet = f"100 {d['reporter']} 200"
        got = {id(x) for x in default_tokenizer.get_extractors(text)}
        for e in EXTRACTORS:
            if (not e.strings or any(x in snippet for x in e.strings)) and e.compiled_regex.search(" " + snippet + " ") \
                    and id(e) not in got:
                rec.violation("C13.own_extractor_filtered_out_in_long_text", c, observed=dict(regex=e.regex[:160]))
                break
        return
    if c.get("extractors") == "all" or "extractor" in c:
        lossless_doc(default_tokenizer, EXTRACTORS, c["text"], rec, index)
        compare_streams(EXTRACTORS, c["text"], rec, "replay", c)
    else:
        sub = [EXTRACTORS[i] for i in c["extractors"]] + EXTRACTORS[-5:][:c.get("specials", 0)]
        compare_streams(sub, c["text"], rec, "replay", c)
