"""C20 Cleaning is composable, idempotent and preserves content."""
import itertools
import random
import re
import sys

from vmon import instrument

LEVEL = "exploration"
EXHAUSTIVE = {"quick": False, "thorough": False}
RULE = ("text cleaners: EXHAUSTIVE over all strings of length <= 6 over the 5-symbol alphabet {a, space, tab, "
        "newline, underscore} (19,530 strings) plus random strings over letters, every str.isspace() character "
        "of Unicode, blanks, tabs and underscores; all step lists of length <= 3 over the three text cleaners "
        "(composition = sequential application), invalid step names (ValueError); per cleaner: idempotent, no "
        "run it must remove is left, remaining characters preserved in order (independent hand-written run "
        "collapser, not a regex); html cleaner: generated valid element trees (block > block/inline, p > "
        "inline, inline > inline without self-nesting, script/style content, entities, whitespace-only text) "
        "whose visible text nodes are known from the generator; non-trivial = string containing a removable run "
        "/ tree with >= 2 visible text nodes; distinct = distinct input")
ASSUMPTIONS = ["lxml's parser defines the element tree for the html cleaner; the generator only emits validly "
               "nested markup, which lxml does not restructure"]
FLOORS = {"quick": {"strings": 40000, "exhaustive_strings": 19530, "step_lists": 39, "composition_checks": 100000,
                    "namespace_names_as_steps": 50, "invalid_step_checks": 20, "trees": 3000, "trees_with_hidden": 300, "whitespace_chars_seen": 20, "many_run_strings": 300},
          "thorough": {"strings": 2000000, "trees": 150000, "composition_checks": 5000000}}
NRAND = {"quick": 4000, "thorough": 200000}
NTREE = {"quick": 450, "thorough": 12000}
SHARDS = {"quick": 8, "thorough": 14}
WS = [chr(c) for c in range(sys.maxunicode + 1) if chr(c).isspace()]
TEXT_STEPS = ["inline_whitespace", "all_whitespace", "underscores"]


def plan(tier, seed):
    n = SHARDS[tier]
    return [dict(i=i, nshards=n, nrand=NRAND[tier], ntree=NTREE[tier], seed=seed * 1000 + i) for i in range(n)]


def classify(v):
    return None


# independent run collapsers (no regex) ------------------------------------
def model_inline(s):
    out, run = [], False
    for ch in s:
        if ch in " \t":
            if not run:
                out.append(" ")
            run = True
        else:
            out.append(ch)
            run = False
    return "".join(out)


def is_re_space(ch):
    # the characters Python's unicode \s matches
    return ch.isspace() or ch in "\x1c\x1d\x1e\x1f"


def model_all(s):
    out, run = [], False
    for ch in s:
        if is_re_space(ch):
            if not run:
                out.append(" ")
            run = True
        else:
            out.append(ch)
            run = False
    return "".join(out)


def model_underscores(s):
    out, i = [], 0
    while i < len(s):
        if s[i] == "_":
            j = i
            while j < len(s) and s[j] == "_":
                j += 1
            if j - i == 1:
                out.append("_")
            i = j
        else:
            out.append(s[i])
            i += 1
    return "".join(out)


MODELS = {"inline_whitespace": model_inline, "all_whitespace": model_all, "underscores": model_underscores}


def leftover(step, out):
    if step == "inline_whitespace":
        return "\t" in out or "  " in out
    if step == "all_whitespace":
        return any(is_re_space(c) and c != " " for c in out) or "  " in out
    return "__" in out


def check_string(s, rec, lists):
    import eyecite.clean as C
    from eyecite import clean_text
    rec.ev()
    rec.count("strings")
    nontrivial = False
    for step in TEXT_STEPS:
        fn = getattr(C, step)
        out = fn(s)
        case = dict(text=s, step=step)
        if out != MODELS[step](s):
            rec.violation("C20.content_not_preserved", case, observed=out[:200], expected=MODELS[step](s)[:200])
        if fn(out) != out:
            rec.violation("C20.not_idempotent", case, observed=fn(out)[:200], expected=out[:200])
        if leftover(step, out):
            rec.violation("C20.run_left", case, observed=out[:200])
        if out != s:
            nontrivial = True
    for steps in lists:
        got = clean_text(s, list(steps))
        exp = s
        for st in steps:
            exp = getattr(C, st)(exp)
        rec.count("composition_checks")
        if got != exp:
            rec.violation("C20.composition", dict(text=s, steps=list(steps)), observed=got[:200], expected=exp[:200])
    if nontrivial:
        rec.nontrivial(s)


# html trees ------------------------------------------------------------------
WORDS = ["alpha", "Beta", "gamma", "1 U.S. 1", "x &amp; y", "Foo v. Bar", "délta", "§ 5", "a &lt; b", "&#167; 9", "“q”",
         # visible text that itself looks like a character reference (escaped once more in the source)
         "&amp;lt;b&amp;gt;", "R&amp;amp;D", "&amp;#167; 5", "&amp;copy 1999", "&amp;nbsp;"]
INL = ["i", "em", "b", "span", "a", "u", "sup"]
BLK = ["p", "div", "blockquote", "section"]
HID = ["script", "style", "SCRIPT", "Style"]     # the parser ignores the case of tag names
ENT = {"&amp;": "&", "&lt;": "<", "&#167;": "§", "&#160;": "\u00a0", "&#12;": "\x0c"}
XML_WS = " \t\r\n"     # what XPath normalize-space() regards as white space


_ENT_RX = re.compile("|".join(re.escape(k) for k in ENT))


def unesc(s):
    # ONE pass: '&amp;lt;' is the visible text '&lt;', not '<'
    return _ENT_RX.sub(lambda m: ENT[m.group(0)], s)


def gen_tree(rng, depth, out, ctx="block", used=()):
    for _ in range(rng.randint(1, 4)):
        r = rng.random()
        if r < 0.45:
            w = " ".join(rng.choice(WORDS) for _ in range(rng.randint(1, 3)))
            out.append(rng.choice(["", " ", "\n  "]) + w + rng.choice(["", " ", "\n"]))
        elif r < 0.55:
            out.append(rng.choice([" ", "\n", "\n   ", "\t", "&#160;", "\u2003", "&#12;", " &#160; ", "\u00a0\n"]))
        elif depth < 4:
            r2 = rng.random()
            if r2 < 0.12:
                tag = rng.choice(HID)
            elif ctx == "block" and r2 < 0.5:
                tag = rng.choice(BLK)
            else:
                cand = [t for t in INL if t not in used]
                if not cand:
                    continue
                tag = rng.choice(cand)
            out.append(f"<{tag}>")
            if tag in HID:
                out.append("var x = 1; " + rng.choice(["alpha", "b { color: red }", "if (a > b) c()"]))
            elif tag in BLK:
                gen_tree(rng, depth + 1, out, "inline" if tag == "p" else "block", used)
            else:
                gen_tree(rng, depth + 1, out, "inline", used + (tag,))
            out.append(f"</{tag}>")


def expected_visible(doc):
    nodes, cur, hidden = [], "", 0
    for m in re.finditer(r"<(/?)(\w+)>|([^<]+)", doc):
        if m.group(3) is not None:
            if not hidden:
                cur += unesc(m.group(3))
        else:
            if cur.strip(XML_WS):
                nodes.append(cur)
            cur = ""
            if m.group(2).lower() in ("script", "style"):
                hidden += -1 if m.group(1) else 1
    if cur.strip(XML_WS):
        nodes.append(cur)
    return nodes


def check_tree(rng, rec):
    from eyecite.clean import html as html_clean
    from eyecite import clean_text
    out = ["<div>"]
    gen_tree(rng, 0, out)
    out.append("</div>")
    doc = "".join(out)
    nodes = expected_visible(doc)
    if not nodes:
        return
    expected = " ".join(nodes)
    rec.ev()
    rec.count("trees")
    if any(f"<{h}>" in doc for h in HID):
        rec.count("trees_with_hidden")
    try:
        got = html_clean(doc)
    except Exception as e:
        rec.violation("C20.html_raised." + type(e).__name__, dict(markup=doc), observed=str(e)[:200])
        return
    if got != expected:
        rec.violation("C20.html_visible_text", dict(markup=doc), observed=got[:300], expected=expected[:300])
    if "<" in got.replace("a < b", "") and re.search(r"</?\w+>", got):
        rec.violation("C20.html_tag_in_output", dict(markup=doc), observed=got[:300])
    if clean_text(doc, ["html", "all_whitespace"]) != model_all(expected):
        rec.violation("C20.html_then_whitespace", dict(markup=doc), observed=clean_text(doc, ["html", "all_whitespace"])[:300],
                      expected=model_all(expected)[:300])
    if len(nodes) >= 2:
        rec.nontrivial(doc)
    if len(rec.samples) < 2 and len(nodes) >= 3:
        rec.sample(dict(markup=doc, visible=expected))


def run_shard(spec, rec):
    instrument.install(rec, what=())
    from eyecite import clean_text
    rng = random.Random(spec["seed"])
    lists = [l for n in range(0, 4) for l in itertools.product(TEXT_STEPS, repeat=n)]
    rec.count("step_lists", len(lists) - 1 if spec["i"] == 0 else 0)
    # exhaustive small strings
    n = 0
    for length in range(0, 7):
        for tup in itertools.product("a \t\n_", repeat=length):
            if n % spec["nshards"] == spec["i"]:
                check_string("".join(tup), rec, lists if length <= 4 else lists[:13])
                rec.count("exhaustive_strings")
            n += 1
    # random strings over every whitespace character
    seen_ws = set()
    pool = list("abcXYZ019.,;") + [" "] * 6 + ["\t"] * 3 + ["_"] * 4 + ["\n"] * 2
    for _ in range(spec["nrand"]):
        k = rng.randint(0, 30)
        s = "".join(rng.choice(WS) if rng.random() < 0.2 else rng.choice(pool) for _ in range(k))
        seen_ws.update(c for c in s if c in WS)
        check_string(s, rec, rng.sample(lists, 4))
    rec.count("whitespace_chars_seen", len(seen_ws) if spec["i"] == 0 else 0)
    # long strings with MANY separate runs (a cleaner that stops after a bounded number of substitutions)
    for _ in range(spec["nrand"] // 10):
        parts = []
        for _j in range(rng.randint(9, 60)):
            parts.append(rng.choice(["ab", "X", "1 U.S. 1", "z,", "§"]))
            parts.append(rng.choice(["__", "___", "  ", " \t ", "\n\n", "_", " ", "\t\t", " \u00a0 "]))
        check_string("".join(parts), rec, rng.sample(lists, 3))
        rec.count("many_run_strings")
    # invalid steps
    # besides arbitrary strings: every name that is *visible* next to the cleaners (module attributes of
    # eyecite.clean, builtins, near-miss spellings) but is not one of the four documented step names
    import builtins
    import eyecite.clean as EC
    documented = {"html", "inline_whitespace", "all_whitespace", "underscores"}
    namespace = sorted((set(dir(EC)) | {"str", "len", "print", "eval", "exec", "strip", "lower", "upper"}
                        | {n.upper() for n in documented} | {n + " " for n in documented} | {n.replace("_", "-") for n in documented}
                        | {n.replace("_", "") for n in documented} | {n + "s" for n in documented} | set(dir(builtins)[:40])) - documented)
    rec.count("namespace_names_as_steps", len(namespace))
    for bad in ["nope", "", "HTML", "html ", 5, None, ("html",)] + namespace:
        rec.count("invalid_step_checks")
        for text, steps in (("a  b", [bad]), ("a  b", ["all_whitespace", bad]), ("", [bad]),
                            ("______", ["underscores", bad]), (" ", ["all_whitespace", bad])):
            try:
                clean_text(text, steps)
                rec.violation("C20.invalid_step_accepted", dict(steps=repr(steps)))
            except ValueError:
                pass
            except Exception as e:
                rec.violation("C20.invalid_step_wrong_exception", dict(steps=repr(steps)), observed=type(e).__name__)
    # callable steps compose too
    if clean_text("a  b", [str.upper, "all_whitespace"]) != "A B":
        rec.violation("C20.callable_step", dict(steps="[str.upper, all_whitespace]"))
    for _ in range(spec["ntree"]):
        check_tree(rng, rec)


def replay(w, rec):
    c = w["case"]
    if "markup" in c:
        from eyecite.clean import html as html_clean
        exp = " ".join(expected_visible(c["markup"]))
        if html_clean(c["markup"]) != exp:
            rec.violation("C20.html_visible_text", c, observed=html_clean(c["markup"]), expected=exp)
    elif "text" in c:
        lists = [tuple(c["steps"])] if "steps" in c else []
        check_string(c["text"], rec, lists)
