"""C09 Annotation is purely additive: stripping the inserted strings restores
the text."""
import random

from vmon import gen, instrument
from vmon.props import _annot as A

LEVEL = "exploration"
RULE = ("generated (plain, annotations, source?, mode, engine) tuples: plain texts over a 50-symbol "
        "alphabet; sources = none / plain + inserted tags and whitespace / arbitrary edits (replacements, "
        "deletions); span sets random, touching, overlapping, empty, unsorted; plus spans extracted by "
        "get_citations (span, span_with_pincite, full_span) from marked-up legal documents annotated back "
        "onto their markup; every annotation gets unique sentinels «k»/«/k»; oracle = output with the "
        "sentinels deleted equals the target text; run for 3 modes x 2 diff engines; non-trivial = >= 1 "
        "annotation emitted; distinct = distinct (plain, source, spans)")
ASSUMPTIONS = ["sentinel characters « » occur in none of the generated texts (checked per case)",
               "spans satisfy 0 <= start <= end <= len(plain) (reversed spans are outside the stated domain)"]
MODES = ("unchecked", "skip", "wrap")
FLOORS = {"quick": dict({f"cell:{m}:{'dmp' if d else 'difflib'}:{s}": 1500
                         for m in MODES for d in (True, False) for s in ("nosrc", "forced", "edited")},
                        **{"markup_docs": 300, "style_repair_moved": 100, "empty_spans": 1000,
                           "overlapping_sets": 1000, "annotations_emitted": 20000, "style:link": 15000, "style:sentinel": 15000, "style:meta": 5000, "style:same": 5000, "style_exhaustive_pairs": 10000}),
          "thorough": {"cases": 400000, "markup_docs": 20000, "style_repair_moved": 5000}}
N = {"quick": 1400, "thorough": 60000}
SHARDS = {"quick": 8, "thorough": 14}
PROBES = [("Id. at 3; id. at 5", "<i>Id. at 3; id.</i> at 5", [(0, 8), (10, 18)]),
          ("ab", "a<b>b", [(1, 1)]), ("", "<b>", [(0, 0)]), ("", "", [(0, 0)]), ("abc", "abc", [(0, 3), (0, 3)]),
          ("abc def", "Xabc ZZ def", [(0, 0), (0, 3), (4, 7), (7, 7)])]


def plan(tier, seed):
    return [dict(i=i, nshards=SHARDS[tier], n=N[tier], seed=seed * 1000 + i, probes=(i == 0)) for i in range(SHARDS[tier])]


def classify(v):
    return None


def one(rec, plain, anns, source, mode, dmp, cell, case):
    from eyecite import annotate_citations
    rec.count("cases")
    rec.count(cell)
    try:
        if case.get("annotator"):
            # the documented customisation hook, here composing exactly what the default does
            out = annotate_citations(plain, anns, source_text=source, unbalanced_tags=mode, use_dmp=dmp,
                                     annotator=lambda before, text, after: before + text + after)
        else:
            out = annotate_citations(plain, anns, source_text=source, unbalanced_tags=mode, use_dmp=dmp)
    except Exception as e:
        # an escaping exception also means the document was not reproduced
        rec.violation("C09.raised." + type(e).__name__, case, observed=str(e)[:200])
        return None
    rec.ev()
    target = source if source else plain
    n = out.count("«") - out.count("«/")
    rec.count("annotations_emitted", n)
    rec.count("style:" + case.get("style", "sentinel"))
    # delete exactly the strings passed to this call (not "anything that looks like a sentinel")
    if A.strip_passed(out, anns) != target:
        rec.violation("C09.text_changed", case, observed=out[:400], expected=target[:400])
    return out


def count_style_repair(rec, hooks_hits):
    pass


def run_shard(spec, rec):
    instrument.install(rec, what=())
    import eyecite.utils as U
    # mechanism counter: how often the style-tag repair really moved a span
    orig = U.maybe_balance_style_tags

    def counting(start, end, plain_text, tolerance=10):
        r = orig(start, end, plain_text, tolerance)
        if (r[0], r[1]) != (start, end):
            rec.count("style_repair_moved")
        return r
    import eyecite.annotate as AN
    if AN.maybe_balance_style_tags is orig:
        AN.maybe_balance_style_tags = counting
    rng = random.Random(spec["seed"])
    if spec.get("probes"):
        for p, s, sp in PROBES:
            for mode in MODES:
                for dmp in (True, False):
                    one(rec, p, A.annotations(sp), s or None, mode, dmp, "probe",
                        dict(plain=p, source=s, spans=sp, mode=mode, dmp=dmp))
    style_repair_exhaustive(spec, rec)
    for k in range(spec["n"]):
        p = A.plain_text(rng)
        r = rng.random()
        if r < 0.3:
            src, kind = None, "nosrc"
            if rng.random() < 0.5:
                # plain text that itself contains tags (annotating markup directly)
                p, _ = A.source_from(rng, p)
        elif r < 0.7:
            src, _ = A.source_from(rng, p)
            kind = "forced"
        else:
            src, kind = A.mutated_source(rng, p), "edited"
        sp = A.random_spans(rng, len(p))
        if any(a == b for a, b in sp):
            rec.count("empty_spans")
        ss = sorted(sp)
        if any(ss[i + 1][0] < ss[i][1] for i in range(len(ss) - 1)):
            rec.count("overlapping_sets")
        if "«" in p or "«" in (src or ""):
            continue
        emitted = False
        style = "link" if k % 3 == 1 else "meta" if k % 7 == 2 else "same" if k % 7 == 3 else "sentinel"
        for mode in MODES:
            for dmp in (True, False):
                cell = f"cell:{mode}:{'dmp' if dmp else 'difflib'}:{kind}"
                case = dict(plain=p, source=src, spans=sp, mode=mode, dmp=dmp, annotator=(k % 5 == 0), style=style)
                anns = A.link_annotations(sp) if style == "link" else A.meta_annotations(sp, rng) if style == "meta" \
                    else A.same_annotations(sp) if style == "same" else A.annotations(sp)
                if style == "meta":
                    case = dict(case, anns=[(list(x[0]), x[1], x[2]) for x in anns])
                out = one(rec, p, anns, src, mode, dmp, cell, case)
                emitted = emitted or (out is not None and "«" in out)
        if emitted:
            rec.nontrivial([p, src, sp])
        if len(rec.samples) < 3 and src and len(sp) >= 2:
            rec.sample(dict(plain=p, source=src, spans=sp))
        # extracted spans on marked-up legal text
        if k % 4 == 0:
            extracted_case(rng, rec)


STYLE_TEMPLATES = [("Roe; id. at 5", "<i>Roe; id.</i> at 5"), ("See Roe, 1 U.S. 1", "See <em>Roe</em>, 1 U.S. 1"),
                   ("ab cd ef", "a<b>b c</b>d <i>ef</i>"), ("Id. at 3; id. at 5", "<i>Id. at 3; id.</i> at 5"),
                   # nested style tags of different kinds, in both nesting orders
                   ("410 U.S. 113", "<i><b>410 U.S.</b></i> 113"), ("410 U.S. 113", "<b><em>410</em> U.S.</b> 113"),
                   ("See Roe at 5", "<em><i>See</i> Roe</em> at <b><i>5</i></b>")]


def style_repair_exhaustive(spec, rec):
    """Every (one real span, one empty span) pair - in both orders - over small templates whose source has
    style tags next to the text: the style-tag repair of 'skip' mode moves span edges across inserted
    tags, and an empty annotation may sit exactly where it moves them to."""
    n = 0
    for plain, src in STYLE_TEMPLATES:
        L = len(plain)
        for a in range(L):
            for b in range(a + 1, L + 1):
                n += 1
                if n % spec["nshards"] != spec["i"]:
                    continue
                for e in range(L + 1):
                    for order in (0, 1):
                        sp = [(e, e), (a, b)] if order == 0 else [(a, b), (e, e)]
                        anns = A.annotations(sp)
                        for mode in MODES:
                            case = dict(plain=plain, source=src, spans=sp, mode=mode, dmp=True, style="sentinel")
                            one(rec, plain, anns, src, mode, True, "style_exhaustive", case)
                        rec.count("style_exhaustive_pairs")


def extracted_case(rng, rec):
    from eyecite import clean_text, get_citations
    m = gen.markup_doc(rng)
    steps = rng.choice(gen.MARKUP_STEPS)
    try:
        plain = clean_text(m, steps)
        cs = get_citations(plain) if rng.random() < 0.5 else get_citations(markup_text=m, clean_steps=steps)
    except Exception as e:
        rec.count("extract_raised:" + type(e).__name__)
        return
    which = rng.choice(["span", "span_with_pincite", "full_span", "mixed"])
    sp = []
    for c in cs:
        w = which if which != "mixed" else rng.choice(["span", "span_with_pincite", "full_span"])
        a, b = getattr(c, w)()
        if 0 <= a <= b <= len(plain):
            sp.append((a, b))
    rec.count("markup_docs")
    style = rng.choice(["link", "sentinel"])
    mk = (lambda: A.link_annotations(sp)) if style == "link" else (lambda: A.annotations(sp))
    for mode in MODES:
        one(rec, plain, mk(), m, mode, True, f"markup:{mode}", dict(plain=plain, source=m, spans=sp, mode=mode, dmp=True, style=style))
    one(rec, plain, mk(), m, "skip", False, "markup:skip:difflib", dict(plain=plain, source=m, spans=sp, mode="skip", dmp=False, style=style))
    if sp:
        rec.nontrivial([plain, m, sp])


def replay(w, rec):
    c = w["case"]
    sp = [tuple(x) for x in c["spans"]]
    if c.get("anns"):
        one(rec, c["plain"], [(tuple(x[0]), x[1], x[2]) for x in c["anns"]], c["source"], c["mode"], c["dmp"], "replay", c)
        return
    if c.get("style") == "same":
        one(rec, c["plain"], A.same_annotations(sp), c["source"], c["mode"], c["dmp"], "replay", c)
        return
    if c.get("style") == "link":
        # the witness depends on an earlier call having used the shared closing string: make one
        from eyecite import annotate_citations
        try:
            annotate_citations("ab", A.link_annotations([(0, 2)]), source_text="a<i>b", unbalanced_tags="wrap")
        except Exception:
            pass
    one(rec, c["plain"], A.link_annotations(sp) if c.get("style") == "link" else A.annotations(sp), c["source"], c["mode"], c["dmp"], "replay", c)
