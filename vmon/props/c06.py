"""C06 Resolution output is a faithful, ordered partition of the resolved
citations."""
import random

from vmon import gen, tok
from vmon import monitors as M
from vmon.props import _resolve as R

LEVEL = "exploration"
LMAX = {"quick": 3, "thorough": 5}
SHARDS = {"quick": 8, "thorough": 14}
NDOC = {"quick": 300, "thorough": 20000}
EXHAUSTIVE = {"quick": True, "thorough": True}
RULE = ("two focus alphabets (short-form disambiguation: 10 kinds; id./placeholder/roman/nominative pages: 14 kinds) enumerated to length 4 (quick) / 5 (thorough); EXHAUSTIVE over all sequences of length <= L (L=3 quick, 5 thorough) over an alphabet of 21 "
        "citation kinds, each kind a real object extracted by get_citations from a canonical snippet and "
        "shallow-copied per use (distinct objects); plus random longer sequences over 45 kinds and every "
        "list extracted from generated multi-case documents; oracle = structural checker (identity, order, "
        "disjointness, first element full, every full citation under exactly one resource, sharing iff "
        "independent keys equal, no unknown citations); non-trivial = sequence containing a full citation; "
        "distinct = distinct kind sequence / distinct document")
ASSUMPTIONS = ["independent key of a case citation = (volume, page, guessed-edition-or-written reporter); "
               "law/journal = all groups + candidate editions (anchors: ResourceCitation.__hash__)",
               "exhaustive for the stated alphabet and bound only"]
FLOORS = {"quick": {"sequences": R.n_sequences(3), "focus_sequences": R.n_focus_sequences(3), "extracted_lists": 500, "full_pairs_compared": 5000, "member_pair_lists": 500},
          "thorough": {"sequences": R.n_sequences(5), "focus_sequences": R.n_focus_sequences(5), "extracted_lists": 30000, "full_pairs_compared": 2000000}}


def plan(tier, seed):
    n = SHARDS[tier]
    return [dict(i=i, nshards=n, lmax=LMAX[tier], ndoc=NDOC[tier], seed=seed * 1000 + i) for i in range(n)]


def classify(v):
    return None


def check_seq(seq, names, rec, resolve):
    from eyecite.models import FullCitation
    case = names if isinstance(names, dict) else dict(sequence=list(names))
    try:
        res = resolve(seq)
    except Exception as e:
        # "for every citation list resolved with the default resolvers" there is a mapping: lists of
        # citations that get_citations itself returned (or copies of them) are in that domain
        rec.count("resolve_raised:" + type(e).__name__)
        rec.violation("C06.no_mapping", case, observed=dict(exception=type(e).__name__, message=str(e)[:200],
                                                             list=R.describe(seq)[:12]))
        return None
    rec.ev()
    nf = sum(1 for c in seq if isinstance(c, FullCitation))
    rec.count("full_pairs_compared", nf * (nf - 1) // 2)
    R.check_c06(seq, res, lambda mon, obs: rec.violation(mon, case, observed=dict(obs, list=R.describe(seq)[:12])))
    return res


def run_shard(spec, rec):
    from eyecite import get_citations, resolve_citations
    from eyecite.models import FullCitation
    import eyecite.resolve as ER

    protos = R.build_protos(extra=True)
    protos.update(R.dynamic_id_kinds(protos, ER.MAX_OPINION_PAGE_COUNT))
    for combo in R.sequences(spec["lmax"], spec["i"], spec["nshards"]):
        seq = R.instantiate(protos, combo)
        check_seq(seq, combo, rec, resolve_citations)
        rec.count("sequences")
        if any(k.startswith(("full", "law", "journal")) for k in combo):
            rec.nontrivial(combo)
        if len(combo) == 3 and len(rec.samples) < 2 and combo[0].startswith("full"):
            rec.sample(dict(sequence=combo))
    for combo in R.focus_sequences(spec["lmax"], spec["i"], spec["nshards"]):
        check_seq(R.instantiate(protos, combo), combo, rec, resolve_citations)
        rec.count("focus_sequences")
        rec.nontrivial(combo)
    for combo in R.long_lists(protos, random.Random(spec["seed"] + 31), 2):
        check_seq(R.instantiate(protos, combo), combo, rec, resolve_citations)
        rec.count("long_lists")
    # random longer sequences over the extended alphabet
    rng = random.Random(spec["seed"])
    allk = list(protos)
    for _ in range(spec["ndoc"]):
        combo = tuple(rng.choice(allk) for _ in range(rng.randint(4, 9)))
        check_seq(R.instantiate(protos, combo), combo, rec, resolve_citations)
        rec.count("random_sequences")
        rec.nontrivial(combo)
    # the same rare-template citation written twice, and two different members of one pattern: equal
    # citations must share a resource, unequal ones must not (patterns of the whole database, incl.
    # 'NY Slip Op', 'Misc. 3d', page-with-letter and year-in-volume templates)
    import re as _re
    from eyecite.models import FullCaseCitation
    from vmon.rxgen import sample
    fullx = [e for e in gen.DB.cit_extractors if not e.extra["short"] and e.regex.startswith(gen.PRE)
             and any(x.reporter.source == "reporters" for x in list(e.extra["exact_editions"]) + list(e.extra["variation_editions"]))]
    for _ in range(spec["ndoc"] // 2):
        e = rng.choice(fullx)
        body = e.regex[len(gen.PRE):-len(gen.POST)]
        rx = _re.compile(body, e.flags)
        cores = []
        for _t in range(12):
            try:
                c0 = sample(body, rng, e.flags, maxrep=2)
            except Exception:
                break
            if rx.fullmatch(c0) and "\n" not in c0:
                cores.append(c0)
            if len(cores) == 2:
                break
        if not cores:
            continue
        texts = [f"Alphaxo v. Betaxo, {cores[0]} (1999).", f"See {cores[0]}, at 5.", f"Gammaxo v. Deltaxo, {cores[-1]}."]
        seq = []
        for t in texts:
            try:
                got = [c for c in get_citations(t) if isinstance(c, FullCaseCitation)]
            except Exception:
                got = []
            if len(got) == 1:
                seq.append(got[0])
        if len(seq) >= 2 and check_seq(seq, dict(member_texts=texts), rec, resolve_citations) is not None:
            rec.count("member_pair_lists")
            rec.nontrivial(texts)
    # lists extracted from documents
    for k in range(spec["ndoc"]):
        text = R.resolution_doc(rng) if k % 3 else gen.dense_doc(rng, hostile=0.2)
        try:
            cs = get_citations(text)
        except Exception:
            continue
        if check_seq(cs, dict(text=text), rec, resolve_citations) is not None:
            rec.count("extracted_lists")
            if any(isinstance(c, FullCitation) for c in cs):
                rec.nontrivial(text)
            if len(rec.samples) < 4 and len(cs) > 4:
                rec.sample(dict(text=text, kinds=[M.kind(c) for c in cs]))


def replay(w, rec):
    from eyecite import get_citations, resolve_citations
    import eyecite.resolve as ER
    c = w["case"]
    if "sequence" in c:
        protos = R.build_protos(extra=True)
        protos.update(R.dynamic_id_kinds(protos, ER.MAX_OPINION_PAGE_COUNT))
        check_seq(R.instantiate(protos, c["sequence"]), c["sequence"], rec, resolve_citations)
    elif "member_texts" in c:
        from eyecite.models import FullCaseCitation
        seq = [x for t in c["member_texts"] for x in get_citations(t) if isinstance(x, FullCaseCitation)]
        check_seq(seq, c, rec, resolve_citations)
    else:
        check_seq(get_citations(c["text"]), c, rec, resolve_citations)
