"""C06 Resolution output is a faithful, ordered partition of the resolved
citations."""
import random

from vmon import gen, tok
from vmon import monitors as M
from vmon.props import _resolve as R

LEVEL = "exploration"
LMAX = {"quick": 3, "thorough": 5}
SHARDS = {"quick": 8, "thorough": 14}
NDOC = {"quick": 300, "thorough": 20000}
EXHAUSTIVE = {"quick": True, "thorough": True}
RULE = ("two focus alphabets (short-form disambiguation: 10 kinds; id./placeholder/roman/nominative pages: 14 kinds) enumerated to length 4 (quick) / 5 (thorough); EXHAUSTIVE over all sequences of length <= L (L=3 quick, 5 thorough) over an alphabet of 21 "
        "citation kinds, each kind a real object extracted by get_citations from a canonical snippet and "
        "shallow-copied per use (distinct objects); plus random longer sequences over 45 kinds and every "
        "list extracted from generated multi-case documents; oracle = structural checker (identity, order, "
        "disjointness, first element full, every full citation under exactly one resource, sharing iff "
        "independent keys equal, no unknown citations); non-trivial = sequence containing a full citation; "
        "distinct = distinct kind sequence / distinct document")
ASSUMPTIONS = ["independent key of a case citation = (volume, page, guessed-edition-or-written reporter); "
               "law/journal = all groups + candidate editions (anchors: ResourceCitation.__hash__)",
               "exhaustive for the stated alphabet and bound only"]
FLOORS = {"quick": {"sequences": R.n_sequences(3), "focus_sequences": R.n_focus_sequences(3), "extracted_lists": 500, "full_pairs_compared": 5000, "member_pair_lists": 2500, "hostile_member_pairs": 100, "dated_pairs": 100},
          "thorough": {"sequences": R.n_sequences(5), "focus_sequences": R.n_focus_sequences(5), "extracted_lists": 30000, "full_pairs_compared": 2000000}}


def plan(tier, seed):
    n = SHARDS[tier]
    return [dict(i=i, nshards=n, lmax=LMAX[tier], ndoc=NDOC[tier], seed=seed * 1000 + i) for i in range(n)]


def classify(v):
    return None


def check_seq(seq, names, rec, resolve):
    from eyecite.models import FullCitation
    case = names if isinstance(names, dict) else dict(sequence=list(names))
    try:
        res = resolve(seq)
    except Exception as e:
        # "for every citation list resolved with the default resolvers" there is a mapping: lists of
        # citations that get_citations itself returned (or copies of them) are in that domain
        rec.count("resolve_raised:" + type(e).__name__)
        rec.violation("C06.no_mapping", case, observed=dict(exception=type(e).__name__, message=str(e)[:200],
                                                             list=R.describe(seq)[:12]))
        return None
    rec.ev()
    nf = sum(1 for c in seq if isinstance(c, FullCitation))
    rec.count("full_pairs_compared", nf * (nf - 1) // 2)
    R.check_c06(seq, res, lambda mon, obs: rec.violation(mon, case, observed=dict(obs, list=R.describe(seq)[:12])))
    return res


def run_shard(spec, rec):
    from eyecite import get_citations, resolve_citations
    from eyecite.models import FullCitation
    import eyecite.resolve as ER

    protos = R.build_protos(extra=True)
    protos.update(R.dynamic_id_kinds(protos, ER.MAX_OPINION_PAGE_COUNT))
    for combo in R.sequences(spec["lmax"], spec["i"], spec["nshards"]):
        seq = R.instantiate(protos, combo)
        check_seq(seq, combo, rec, resolve_citations)
        rec.count("sequences")
        if any(k.startswith(("full", "law", "journal")) for k in combo):
            rec.nontrivial(combo)
        if len(combo) == 3 and len(rec.samples) < 2 and combo[0].startswith("full"):
            rec.sample(dict(sequence=combo))
    for combo in R.focus_sequences(spec["lmax"], spec["i"], spec["nshards"]):
        check_seq(R.instantiate(protos, combo), combo, rec, resolve_citations)
        rec.count("focus_sequences")
        rec.nontrivial(combo)
    for combo in R.long_lists(protos, random.Random(spec["seed"] + 31), 2):
        check_seq(R.instantiate(protos, combo), combo, rec, resolve_citations)
        rec.count("long_lists")
    for combo in R.collision_sequences(random.Random(spec["seed"] + 57), 400):
        check_seq(R.instantiate(protos, combo), combo, rec, resolve_citations)
        rec.count("collision_sequences")
    # random longer sequences over the extended alphabet
    rng = random.Random(spec["seed"])
    allk = list(protos)
    for _ in range(spec["ndoc"]):
        combo = tuple(rng.choice(allk) for _ in range(rng.randint(4, 9)))
        check_seq(R.instantiate(protos, combo), combo, rec, resolve_citations)
        rec.count("random_sequences")
        rec.nontrivial(combo)
    # the same rare-template citation written twice, and two different members of one pattern: equal
    # citations must share a resource, unequal ones must not (patterns of the whole database, incl.
    # 'NY Slip Op', 'Misc. 3d', page-with-letter and year-in-volume templates)
    import re as _re
    from eyecite.models import FullCaseCitation
    from vmon.rxgen import sample
    fullx = [e for e in gen.DB.cit_extractors if not e.extra["short"] and e.regex.startswith(gen.PRE)
             and any(x.reporter.source == "reporters" for x in list(e.extra["exact_editions"]) + list(e.extra["variation_editions"]))]
    # every such pattern once per run (sharded), then random ones
    sweep = [e for n, e in enumerate(fullx) if n % spec["nshards"] == spec["i"]]
    for it in range(len(sweep) + spec["ndoc"] // 2):
        e = sweep[it] if it < len(sweep) else rng.choice(fullx)
        body = e.regex[len(gen.PRE):-len(gen.POST)]
        rx = _re.compile(body, e.flags)
        cores = []
        for _t in range(12):
            try:
                c0 = sample(body, rng, e.flags, maxrep=2)
            except Exception:
                break
            if rx.fullmatch(c0) and "\n" not in c0:
                cores.append(c0)
            if len(cores) == 2:
                break
        if rng.random() < 0.3:
            # two members that differ only in non-ASCII characters of the volume or page group
            hp = gen.hostile_pair(rng)
            if hp:
                cores = list(hp)
                rec.count("hostile_member_pairs")
        if not cores:
            continue
        texts = [f"Alphaxo v. Betaxo, {cores[0]} (1999).", f"See {cores[0]}, at 5.", f"Gammaxo v. Deltaxo, {cores[-1]}."]
        seq = []
        for t in texts:
            try:
                got = [c for c in get_citations(t) if isinstance(c, FullCaseCitation)]
            except Exception:
                got = []
            if len(got) == 1:
                seq.append(got[0])
        if len(seq) >= 2 and check_seq(seq, dict(member_texts=texts), rec, resolve_citations) is not None:
            rec.count("member_pair_lists")
            rec.nontrivial(texts)
    dated_pairs(spec, rec, rng, resolve_citations)
    # lists extracted from documents
    for k in range(spec["ndoc"]):
        text = R.resolution_doc(rng) if k % 3 else gen.dense_doc(rng, hostile=0.2)
        try:
            cs = get_citations(text)
        except Exception:
            continue
        if check_seq(cs, dict(text=text), rec, resolve_citations) is not None:
            rec.count("extracted_lists")
            if any(isinstance(c, FullCitation) for c in cs):
                rec.nontrivial(text)
            if len(rec.samples) < 4 and len(cs) > 4:
                rec.sample(dict(text=text, kinds=[M.kind(c) for c in cs]))


_DATED = None


def dated_variations():
    """(variation, [(edition name, first year, last year)]) for reporter strings that the database lists as
    a variation of several editions - read from reporters-db, not from the library's lookup tables."""
    global _DATED
    if _DATED is None:
        from reporters_db import REPORTERS
        out = []
        for v, rel in sorted(gen.DB.related.items()):
            # an edition's own name is never a mere variation (exact-name candidates take precedence)
            if len(rel) < 2 or any(en == v for _, _, en in rel):
                continue
            eds = []
            for key, ci, en in sorted(rel):
                ed = REPORTERS[key][ci]["editions"].get(en)
                if not ed:
                    break
                eds.append((en, ed["start"].year if ed.get("start") else None, ed["end"].year if ed.get("end") else None))
            else:
                if len({e[0] for e in eds}) == len(eds):
                    out.append((v, eds))
        _DATED = out
    return _DATED


def dated_pairs(spec, rec, rng, resolve):
    """An ambiguous variation written with a year in which exactly one of its editions was published is that
    edition: it shares a resource with the edition's own name (same volume and page) and with no other
    edition. Years at the first and last year of each edition's range."""
    from eyecite import get_citations
    from eyecite.models import FullCaseCitation
    from vmon.props.c05 import plain_shape_only
    for n, (v, eds) in enumerate(dated_variations()):
        if n % spec["nshards"] != spec["i"] or not plain_shape_only(v):
            continue
        for en, first, last in eds:
            for y in {first, last, (first + 1) if first else None, (last - 1) if last else None} - {None}:
                inc = [e for e in eds if (e[1] is None or e[1] <= y) and (e[2] is None or y <= e[2])]
                if [e[0] for e in inc] != [en] or not (1600 <= y <= gen.YEARNOW) or not plain_shape_only(en) or en == v:
                    continue
                other = next((e[0] for e in eds if e[0] != en and plain_shape_only(e[0]) and e[0] != v), None)
                texts = [f"Alphaxo v. Betaxo, 3 {v} 45 ({y}).", f"Gammaxo v. Deltaxo, 3 {en} 45 ({y})."] + (
                    [f"Epsilonxo v. Zetaxo, 3 {other} 45."] if other else [])
                seq = []
                for t in texts:
                    try:
                        got = [c for c in get_citations(t) if isinstance(c, FullCaseCitation)]
                    except Exception:
                        got = []
                    if len(got) != 1 or got[0].matched_text() not in t:
                        seq = None
                        break
                    seq.append(got[0])
                if not seq:
                    rec.count("dated_pair_not_extracted_as_written")
                    continue
                case = dict(dated_texts=texts, variation=v, edition=en, year=y)
                try:
                    res = resolve(seq)
                except Exception as e:
                    rec.violation("C06.no_mapping", case, observed=str(e)[:200])
                    continue
                rec.ev()
                rec.count("dated_pairs")
                rec.nontrivial(texts)
                grp = R.groups_of(res)
                g = [grp.get(id(c), [None])[0] for c in seq]
                if not (g[0] is not None and g[1] is not None and g[0] == g[1]):
                    rec.violation("C06.dated_variation_not_with_its_edition", case, observed=[repr(x)[:80] for x in g[:2]])
                if other and g[2] is not None and (g[2] == g[1] or g[2] == g[0]):
                    rec.violation("C06.dated_variation_with_other_edition", case, observed=[repr(x)[:80] for x in g])


def replay(w, rec):
    from eyecite import get_citations, resolve_citations
    import eyecite.resolve as ER
    c = w["case"]
    if "sequence" in c:
        protos = R.build_protos(extra=True)
        protos.update(R.dynamic_id_kinds(protos, ER.MAX_OPINION_PAGE_COUNT))
        check_seq(R.instantiate(protos, c["sequence"]), c["sequence"], rec, resolve_citations)
    elif "member_texts" in c:
        from eyecite.models import FullCaseCitation
        seq = [x for t in c["member_texts"] for x in get_citations(t) if isinstance(x, FullCaseCitation)]
        check_seq(seq, c, rec, resolve_citations)
    else:
        check_seq(get_citations(c["text"]), c, rec, resolve_citations)
