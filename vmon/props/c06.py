"""C06 Resolution output is a faithful, ordered partition of the resolved
citations."""
import random

from vmon import gen, tok
from vmon import monitors as M
from vmon.props import _resolve as R

LEVEL = "exploration"
LMAX = {"quick": 3, "thorough": 5}
SHARDS = {"quick": 8, "thorough": 14}
NDOC = {"quick": 300, "thorough": 20000}
EXHAUSTIVE = {"quick": True, "thorough": True}
RULE = ("EXHAUSTIVE over all sequences of length <= L (L=3 quick, 5 thorough) over an alphabet of 21 "
        "citation kinds, each kind a real object extracted by get_citations from a canonical snippet and "
        "shallow-copied per use (distinct objects); plus random longer sequences over 41 kinds and every "
        "list extracted from generated multi-case documents; oracle = structural checker (identity, order, "
        "disjointness, first element full, every full citation under exactly one resource, sharing iff "
        "independent keys equal, no unknown citations); non-trivial = sequence containing a full citation; "
        "distinct = distinct kind sequence / distinct document")
ASSUMPTIONS = ["independent key of a case citation = (volume, page, guessed-edition-or-written reporter); "
               "law/journal = all groups + candidate editions (anchors: ResourceCitation.__hash__)",
               "exhaustive for the stated alphabet and bound only"]
FLOORS = {"quick": {"sequences": R.n_sequences(3), "extracted_lists": 500, "full_pairs_compared": 5000},
          "thorough": {"sequences": R.n_sequences(5), "extracted_lists": 30000, "full_pairs_compared": 2000000}}


def plan(tier, seed):
    n = SHARDS[tier]
    return [dict(i=i, nshards=n, lmax=LMAX[tier], ndoc=NDOC[tier], seed=seed * 1000 + i) for i in range(n)]


def classify(v):
    return None


def check_seq(seq, names, rec, resolve):
    from eyecite.models import FullCitation
    case = names if isinstance(names, dict) else dict(sequence=list(names))
    try:
        res = resolve(seq)
    except Exception as e:
        rec.count("resolve_raised:" + type(e).__name__)
        return None
    rec.ev()
    nf = sum(1 for c in seq if isinstance(c, FullCitation))
    rec.count("full_pairs_compared", nf * (nf - 1) // 2)
    R.check_c06(seq, res, lambda mon, obs: rec.violation(mon, case, observed=dict(obs, list=R.describe(seq)[:12])))
    return res


def run_shard(spec, rec):
    from eyecite import get_citations, resolve_citations
    from eyecite.models import FullCitation
    import eyecite.resolve as ER

    protos = R.build_protos(extra=True)
    protos.update(R.dynamic_id_kinds(protos, ER.MAX_OPINION_PAGE_COUNT))
    for combo in R.sequences(spec["lmax"], spec["i"], spec["nshards"]):
        seq = R.instantiate(protos, combo)
        check_seq(seq, combo, rec, resolve_citations)
        rec.count("sequences")
        if any(k.startswith(("full", "law", "journal")) for k in combo):
            rec.nontrivial(combo)
        if len(combo) == 3 and len(rec.samples) < 2 and combo[0].startswith("full"):
            rec.sample(dict(sequence=combo))
    # random longer sequences over the extended alphabet
    rng = random.Random(spec["seed"])
    allk = list(protos)
    for _ in range(spec["ndoc"]):
        combo = tuple(rng.choice(allk) for _ in range(rng.randint(4, 9)))
        check_seq(R.instantiate(protos, combo), combo, rec, resolve_citations)
        rec.count("random_sequences")
        rec.nontrivial(combo)
    # lists extracted from documents
    for k in range(spec["ndoc"]):
        text = R.resolution_doc(rng) if k % 3 else gen.dense_doc(rng, hostile=0.2)
        try:
            cs = get_citations(text)
        except Exception:
            continue
        if check_seq(cs, dict(text=text), rec, resolve_citations) is not None:
            rec.count("extracted_lists")
            if any(isinstance(c, FullCitation) for c in cs):
                rec.nontrivial(text)
            if len(rec.samples) < 4 and len(cs) > 4:
                rec.sample(dict(text=text, kinds=[M.kind(c) for c in cs]))


def replay(w, rec):
    from eyecite import get_citations, resolve_citations
    import eyecite.resolve as ER
    c = w["case"]
    if "sequence" in c:
        protos = R.build_protos(extra=True)
        protos.update(R.dynamic_id_kinds(protos, ER.MAX_OPINION_PAGE_COUNT))
        check_seq(R.instantiate(protos, c["sequence"]), c["sequence"], rec, resolve_citations)
    else:
        check_seq(get_citations(c["text"]), c, rec, resolve_citations)
