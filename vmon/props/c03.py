"""C03 Citations come back in document order, unique and non-overlapping;
merging reference citations with the public filter is safe and idempotent."""
import random

from vmon import gen, instrument, tok
from vmon import monitors as M
from vmon.props import _extract

LEVEL = "exploration"
RULE = ("seeded citation-dense documents with parallel cites, short-form parallels "
        "('A v. B, 550 U.S. at 556, 127 S.Ct. 1955'), string cites and names reused as references, "
        "plain and markup mode, three tokenizers; order/uniqueness/non-overlap checked on every "
        "get_citations result and (icontract postcondition) on every internal filter_citations call; "
        "plus merge histories: for every full case citation resolved names are set, "
        "extract_reference_citations is called and filter_citations applied once, twice and with "
        "the references repeated; non-trivial = result with >= 2 citations or a merge history that "
        "added >= 1 reference; distinct = distinct (tokenizer, input)")
ASSUMPTIONS = ["when the same references are merged a second time, non-reference members are compared by "
               "identity and order and the guarantees are re-checked; which of two overlapping reference "
               "citations survives is not compared (it may depend on input order; see DESIGN.md false alarms)"]
FLOORS = {
    "quick": {"results_ge3": 1000, "merge_histories": 300, "merge_histories_added_ref": 100,
              "contract:filter_citations": 3000, "adjacent_pairs": 8000, "recalls_after_in_place_merge": 1000},
    "thorough": {"results_ge3": 60000, "merge_histories": 20000, "merge_histories_added_ref": 6000,
                 "adjacent_pairs": 500000},
}
N = {"quick": 450, "thorough": 25000}
SHARDS = {"quick": 8, "thorough": 14}
MERGE_NAMES = ["Foo", "Bar", "Halper", "Bae", "Twombly", "Wingler", "Theatre Enterprises",
               "Bell Atlantic Corp.", "Roe", "Wade", "Amick", "Nobelman"]


def plan(tier, seed):
    specs = [dict(i=i, n=N[tier], seed=seed * 1000 + i, corpus=(i == 0)) for i in range(SHARDS[tier])]
    if tier == "thorough":
        specs.append(dict(i=99, suite=True, n=0, seed=seed))
    return specs


def prepare(tier, seed, workdir):
    tok.prebuild_hs()


def classify(v):
    return None


def order_extra(rng, rec):
    """Documents whose full spans interleave."""
    nm = lambda: rng.choice(MERGE_NAMES)  # noqa
    r = rng.random()
    v, p = gen.num(rng), gen.num(rng)
    if r < 0.3:
        s = f"{nm()} v. {nm()}, {v} {gen.rep(rng)} at {p}, {gen.num(rng)} {gen.rep(rng)} {gen.num(rng)}"
    elif r < 0.5:
        s = (f"{nm()} v. {nm()}, {v} {gen.rep(rng)} {p} (1999). {nm()}, {v} {gen.rep(rng)} at {p}, "
             f"{gen.num(rng)} {gen.rep(rng)} {gen.num(rng)}.")
    elif r < 0.7:
        a, b = nm(), nm()
        s = (f"{a} v. {b}, {v} {gen.rep(rng)} {p}, {gen.num(rng)} {gen.rep(rng)} {gen.num(rng)} (2001); "
             f"as {a} at {gen.num(rng)} held, and {b} at {gen.num(rng)}; {a}, supra, at 5; Id. at 6")
    elif r < 0.78:
        a = nm()
        s = (f"{a} v. {nm()}, {v} {gen.rep(rng)} {p} (1999). In re {nm()} (2001) {gen.num(rng)} {gen.rep(rng)} {gen.num(rng)}. "
             f"{rng.choice(['Pub. L. No. 94-553', '42 U.S.C. § 1983', 'Id. at 5.'])} {a} at {gen.num(rng)} {gen.rep(rng)}, {gen.num(rng)} supra")
    elif r < 0.85:
        s = "; ".join(f"{nm()} v. {nm()}, {gen.num(rng)} {gen.rep(rng)} {gen.num(rng)}" for _ in range(rng.randint(2, 5)))
    else:
        a = nm()
        s = f"In {a} v. {nm()}, {v} {gen.rep(rng)} {p}, the {a} at {gen.num(rng)}, {gen.num(rng)} {gen.rep(rng)} {gen.num(rng)} court"
    if rng.random() < 0.3:
        s = gen.mutate(s, rng, k=1, rec=rec)
    return s + rng.choice([".", " ", "; " + gen.frag(rng)])


def ids(cs):
    return [id(c) for c in cs]


def merge_history(text, cs, cfg, rec, rng):
    from eyecite.find import extract_reference_citations
    from eyecite.helpers import filter_citations
    from eyecite.models import Document, FullCaseCitation, ReferenceCitation

    first = [(M.kind(c), c.span(), c.full_span()) for c in cs]
    fulls = [c for c in cs if isinstance(c, FullCaseCitation)]
    if not fulls or cfg.get("markup") is not None and not cfg.get("steps"):
        return
    if cfg.get("markup") is not None:
        doc = Document(plain_text="", markup_text=cfg["markup"], clean_steps=cfg["steps"])
    else:
        doc = Document(plain_text=text, markup_text="")
    words = [w.strip(".,;()") for w in text.split() if w[:1].isupper() and len(w) > 3]
    refs = []
    names = []
    for f in fulls:
        short = rng.choice([f.metadata.plaintiff, f.metadata.defendant] + MERGE_NAMES[:4] + words[-3:])
        long_ = rng.choice([None, f"{rng.choice(MERGE_NAMES)} v. {rng.choice(MERGE_NAMES)}"] + words[:2])
        f.metadata.resolved_case_name_short = short
        f.metadata.resolved_case_name = long_
        names.append((short, long_))
        try:
            refs += extract_reference_citations(f, doc)
        except Exception as e:
            rec.count("extract_reference_raised:" + type(e).__name__)
    rec.count("merge_histories")
    case = dict(cfg, resolved_names=names)
    try:
        merged = filter_citations(cs + refs)
        again = filter_citations(merged)
        again2 = filter_citations(merged + refs)
    except Exception as e:
        rec.count("filter_raised:" + type(e).__name__)
        return
    rec.ev()
    added = [c for c in merged if isinstance(c, ReferenceCitation) and not any(c is x for x in cs)]
    if added:
        rec.count("merge_histories_added_ref")
        rec.count("references_added", len(added))
        rec.nontrivial(["merge", cfg.get("tokenizer"), text, names])
    mid = set(ids(merged))
    for c in cs:
        if not isinstance(c, ReferenceCitation) and id(c) not in mid:
            rec.violation("C03.merge_lost_nonreference", case, observed=dict(kind=M.kind(c), span=c.span()))
    for mon, obs in M.order(merged):
        rec.violation("C03.merge_" + mon.split(".")[1], case,
                      observed=dict(obs, merged=[(M.kind(c), c.span()) for c in merged][:30]))
    if ids(again) != ids(merged):
        rec.violation("C03.merge_not_idempotent", case,
                      observed=dict(first=[(M.kind(c), c.span()) for c in merged][:30],
                                    second=[(M.kind(c), c.span()) for c in again][:30]))
    # merging the same references again: the property's guarantees must hold
    # again (which of two overlapping *reference* citations survives may
    # legitimately depend on input order, so references are not compared)
    nonref = lambda lst: [id(c) for c in lst if not isinstance(c, ReferenceCitation)]  # noqa
    if nonref(again2) != nonref(merged):
        rec.violation("C03.remerge_changes_nonreferences", case,
                      observed=dict(first=[(M.kind(c), c.span()) for c in merged][:30],
                                    second=[(M.kind(c), c.span()) for c in again2][:30]))
    for mon, obs in M.order(again2):
        rec.violation("C03.remerge_" + mon.split(".")[1], case,
                      observed=dict(obs, merged=[(M.kind(c), c.span()) for c in again2][:30]))
    try:
        again3 = filter_citations(again2)
    except Exception:
        return
    if ids(again3) != ids(again2):
        rec.violation("C03.remerge_not_idempotent", case,
                      observed=dict(first=[(M.kind(c), c.span()) for c in again2][:30],
                                    second=[(M.kind(c), c.span()) for c in again3][:30]))
    # history: the caller merges *in place* into the list it was handed (as the library's own tests do) and
    # then asks for the citations of the same input again: the guarantees hold for that result too, and
    # it is the result of the first call
    try:
        cs.extend(refs)
        filter_citations(cs)
        _, second = _extract.rerun(cfg)
    except Exception as e:
        rec.count("recall_raised:" + type(e).__name__)
        return
    rec.count("recalls_after_in_place_merge")
    for mon, obs in M.order(second):
        rec.violation("C03.recall_" + mon.split(".")[1], case,
                      observed=dict(obs, result=[(M.kind(c), c.span()) for c in second][:30]))
    if [(M.kind(c), c.span(), c.full_span()) for c in second] != first:
        rec.violation("C03.recall_differs", case, observed=[(M.kind(c), c.span()) for c in second][:30], expected=first[:30])


def run_shard(spec, rec):
    if spec.get("suite"):
        return _extract.suite_under_contracts(rec, "C03.")
    instrument.install(rec, what=("filter_citations",))
    rng = random.Random(spec["seed"] + 77)

    def on_result(text, cs, cfg):
        if len(cs) >= 3:
            rec.count("results_ge3")
        rec.count("adjacent_pairs", max(0, len(cs) - 1))
        for mon, obs in M.order(cs):
            rec.violation(mon, cfg, observed=dict(obs, result=[(M.kind(c), c.span(), c.full_span()) for c in cs][:30]))
        if len(rec.samples) < 3 and len(cs) >= 4:
            rec.sample(dict(cfg, result=[(M.kind(c), c.span(), c.full_span()) for c in cs][:10]))
        if cfg["tokenizer"] != "ref":
            merge_history(text, cs, cfg, rec, rng)

    _extract.drive(spec, rec, on_result, extra=order_extra)


def replay(w, rec):
    instrument.install(rec, what=("filter_citations",))
    if "text" not in w["case"] and "markup" not in w["case"]:
        rec.note("witness recorded by the filter_citations contract without client context: not replayable")
        return
    instrument.CONTEXT = {k: w["case"].get(k) for k in ("text", "markup", "steps", "tokenizer")}
    text, cs = _extract.rerun(w["case"])
    for mon, obs in M.order(cs):
        rec.violation(mon, w["case"], observed=obs)
    merge_history(text, cs, w["case"], rec, random.Random(0))
