"""C02 Reported offsets index the text they claim to index."""
from vmon import gen, instrument, tok
from vmon import monitors as M
from vmon.props import _extract

LEVEL = "exploration"
RULE = ("seeded citation-dense documents (grammar fragments, nominative-reporter names, abutting "
        "punctuation, hostile character mutations, mutated strings from the repository's tests) "
        "and marked-up documents, each run through get_citations with the Aho-Corasick, Hyperscan "
        "and (1/8) reference tokenizers; oracle = offset inequalities, slice-starts-with-matched-"
        "text, pin span containment, pin text inside pin span (against the cleaned text in markup "
        "mode); non-trivial = at least one citation returned; distinct = distinct (tokenizer, input)")
ASSUMPTIONS = ["offsets of markup-mode citations refer to clean_text(markup, steps) computed by the monitor"]
FLOORS = {
    "quick": {"citations": 5000, "kind:FullCaseCitation": 50, "kind:ShortCaseCitation": 50,
              "kind:SupraCitation": 50, "kind:IdCitation": 50, "kind:ReferenceCitation": 50,
              "kind:FullLawCitation": 50, "kind:FullJournalCitation": 50, "kind:UnknownCitation": 50,
              "calls:ac": 1000, "calls:hs": 1000, "calls:ref": 100, "calls:markup": 200,
              "pin_cites_checked": 500, "midpage_sweep_calls": 80},
    "thorough": {"citations": 300000, "kind:ReferenceCitation": 2000, "calls:ref": 5000,
                 "calls:markup": 10000, "pin_cites_checked": 30000},
}
N = {"quick": 500, "thorough": 25000}
SHARDS = {"quick": 8, "thorough": 14}
PROBES = ["eyecite", "Foo, 1 U.S. at 5 because", "Foo\tv. Bar, 1 U.S. 1", "United States( v. Bar, 1 U.S. 1",
          "Shapiro v. Thompson, 394 U. S. 618", "Foo, 1 U.S. at xii.", "Foo, 1 U.S. at ___."]


def plan(tier, seed):
    specs = [dict(i=i, n=N[tier], seed=seed * 1000 + i, corpus=(i == 0), probes=(i == 0))
            for i in range(SHARDS[tier])]
    if tier == "thorough":
        specs.append(dict(i=99, suite=True, n=0, seed=seed))
    return specs


def prepare(tier, seed, workdir):
    tok.prebuild_hs()


def classify(v):
    c = v.get("case") or {}
    if c.get("text") == "eyecite" and not c.get("markup"):
        return "joke-citation"
    return None


def short_extra(rng, rec):
    """short / supra / id forms followed by ordinary words (span arithmetic)."""
    r = rng.random()
    page = rng.choice([gen.num(rng), "xii", "___", "iv", gen.num(rng)])
    tail = rng.choice([" because", ".", ", 7.", " (noting x).", " and", "; see", " n.3", "-" + gen.num(rng) + ".", ")",
                       # nothing scannable after the citation: end of the text, end of the paragraph, the next
                       # special token at once
                       "", "", "\n", "\nThe next paragraph.", " Id. at 3.", " § 5", " supra", " 1 U.S. 1"])
    if r < 0.06:
        # pin cites on both sides of an antecedent-introduced full citation
        return (f"{gen.name(rng)} at {gen.num(rng)}, {gen.num(rng)} {gen.rep(rng)} {gen.num(rng)}, "
                f"{gen.num(rng)}{rng.choice(['', '-' + gen.num(rng)])}{rng.choice(['.', ' (1999).', '; see'])}")
    if r < 0.12:
        # short form of ANY pattern of the database
        return f"{gen.name(rng)}, {gen.member(rng, short=True)}{tail}"
    if r < 0.2:
        # ... and of the patterns whose page may contain punctuation ('BCA at 12,345 and')
        return f"{gen.name(rng)}, {gen.punct_page_member(rng, short=True)}{tail}"
    if r < 0.25:
        # ... and of the patterns that continue after the page ('15 at 55 (La.App. 4 Cir. 8/2/17), 5')
        return f"{gen.name(rng)}, {gen.midpage_member(rng, short=True)}{tail}"
    if r < 0.5:
        return f"{gen.name(rng)}, {gen.num(rng)} {gen.rep(rng)} at {page}{tail}"
    if r < 0.7:
        return f"{gen.name(rng)}, {gen.foldvar(rng, 'supra', 0.15)}, at {page}{tail} {gen.frag(rng)}"
    if r < 0.85:
        return f"{gen.foldvar(rng, rng.choice(['Id.', 'Ibid.', 'id.']), 0.15)} at {page}{tail} {gen.frag(rng)}"
    sep = rng.choice(["\t", "  ", "( ", " (", "\n", " "])
    return f"{gen.name(rng)}{sep}v. {gen.name(rng)}, {gen.num(rng)} {gen.rep(rng)} {gen.num(rng)}{tail}"


def on_result_factory(rec):
    def on_result(text, cs, cfg):
        for c in cs:
            if isinstance(c, M.PIN_KINDS) and c.metadata.pin_cite:
                rec.count("pin_cites_checked")
        for mon, obs in M.offsets(text, cs):
            rec.violation(mon, cfg, observed=obs)
        if len(rec.samples) < 3 and len(cs) >= 3:
            rec.sample(dict(cfg, citations=[(M.kind(c), c.span(), c.full_span(), c.span_with_pincite()) for c in cs][:8]))
    return on_result


def midpage_sweep(spec, rec, on_result):
    """Every pattern whose matched text continues after the page group (short and full form), once per run
    (sharded): a member followed by a further pin cite, and one ending the text."""
    import random
    from eyecite import get_citations
    from vmon.rxgen import sample
    rng = random.Random(spec["seed"] + 99)
    gen.midpage_member(rng, True)
    gen.midpage_member(rng, False)
    n = 0
    for key in (True, False):
        for e, body, rx in gen._midpage.get(key, []):
            n += 1
            if n % 8 != spec["i"] % 8:
                continue
            for _ in range(6):
                try:
                    m = sample(body, rng, e.flags, maxrep=2, ascii_only=True)
                except Exception:
                    break
                if rx.fullmatch(m) and "\n" not in m:
                    for text in (f"Foo v. Bar, 1 U.S. 1 (1990). Bar, {m}, 15 (noting x).", f"See Bar, {m}", f"Bar, {m}, 15-16, 20; and {m}."):
                        for name in ("ac", "hs"):
                            try:
                                cs = get_citations(text, tokenizer=tok.get(name))
                            except Exception as x:
                                rec.count("get_citations_raised:" + type(x).__name__)
                                continue
                            rec.ev()
                            rec.count("midpage_sweep_calls")
                            on_result(text, cs, dict(text=text, markup=None, steps=None, tokenizer=name))
                    break


def run_shard(spec, rec):
    if spec.get("suite"):
        return _extract.suite_under_contracts(rec, "C02.")
    instrument.install(rec, what=())  # boundary monitor decides; contracts used by C12/C03
    on_result = on_result_factory(rec)
    if spec.get("probes"):
        from eyecite import get_citations
        for p in PROBES:
            for name in ("ac", "hs"):
                try:
                    cs = get_citations(p, tokenizer=tok.get(name))
                except Exception as e:
                    rec.count("get_citations_raised:" + type(e).__name__)
                    continue
                rec.ev()
                on_result(p, cs, dict(text=p, markup=None, steps=None, tokenizer=name))
    midpage_sweep(spec, rec, on_result)
    _extract.drive(spec, rec, on_result, extra=short_extra)


def replay(w, rec):
    text, cs = _extract.rerun(w["case"])
    on_result_factory(rec)(text, cs, w["case"])
