"""C16 Citation equality identifies the cited document, not its spelling or
context."""
import itertools
import random
import re

from vmon import gen, instrument
from vmon import monitors as M
from vmon import refmodel

LEVEL = "exploration"
EXHAUSTIVE = {"quick": True, "thorough": True}
RULE = ("EXHAUSTIVE over all (edition, variation) pairs of reporters-db that use the standard citation "
        "template: the variation spelling embedded in a rich context (parties, pin cite, year, parenthetical, "
        "prose) must be ==, hash-equal and Resource-equal to the bare canonical spelling whenever the database "
        "maps it unambiguously (single guessed edition equal to the canonical one's), and == must agree with "
        "the independent key in every case; every canonical citation's corrected_citation() must re-parse to "
        "one equal citation and be a fixed point; plus pools of citations extracted from generated documents "
        "(all pairs): == vs independent key, reflexive/symmetric/transitive, hash consistency, Resource "
        "equality, placeholder/id/unknown equal only to themselves, no equality across kinds; non-trivial = "
        "a compared pair; distinct = distinct (edition, variation) pair / distinct pool pair")
ASSUMPTIONS = ["independent key of a case citation = (class, volume, page, guessed-edition-or-written reporter)",
               "variations whose guessed edition differs from (or is missing next to) the canonical one's are "
               "ambiguous in the database and only checked against the independent key"]
FLOORS = {"quick": {"db_pairs": 2100, "custom_template_pairs": 80, "cross_template_pairs": 15, "db_pairs_unambiguous": 1500, "db_pairs_unambiguous_by_database": 1200, "roundtrips": 4800, "roundtrip_page:leading_zero": 1000, "roundtrip_page:long": 1000, "pools": 80,
                    "pool_pairs": 100000, "pool_equal_pairs": 300, "placeholder_objects": 50,
                    "cross_kind_pairs": 20000, "nominative_forms": 100, "nominative_db_forms": 100},
          "thorough": {"db_pairs": 2100, "custom_template_pairs": 80, "cross_template_pairs": 15, "db_pairs_unambiguous": 1500, "db_pairs_unambiguous_by_database": 1200, "pools": 1500, "pool_pairs": 3000000}}
NPOOL = {"quick": 12, "thorough": 150}
SHARDS = {"quick": 8, "thorough": 14}
REPS = ["U.S.", "U. S.", "F.2d", "F. 2d", "S. Ct.", "S.Ct.", "Mass.", "F.3d", "Wash.", "A.2d", "A. 2d"]


def plan(tier, seed):
    n = SHARDS[tier]
    return [dict(i=i, nshards=n, npool=NPOOL[tier], seed=seed * 1000 + i) for i in range(n)]


def classify(v):
    return None


def one_case(text):
    from eyecite import get_citations
    from eyecite.models import CaseCitation
    cs = [c for c in get_citations(text) if isinstance(c, CaseCitation)]
    return cs[0] if len(cs) == 1 else None


def case_citations(text):
    from eyecite import get_citations
    from eyecite.models import CaseCitation
    return [c for c in get_citations(text) if isinstance(c, CaseCitation)]


def key(c):
    from eyecite.models import (CaseCitation, FullCitation, IdCitation, UnknownCitation)
    if isinstance(c, (IdCitation, UnknownCitation)):
        return ("identity", id(c))
    if isinstance(c, CaseCitation):
        if refmodel.placeholder_page(c):
            return ("identity", id(c))
        return (type(c).__name__, c.groups.get("volume"), c.groups.get("page"), refmodel.norm_reporter(c))
    if isinstance(c, FullCitation):
        return refmodel.full_key(c)
    # supra / reference: hash of groups + class (anchors: CitationBase.__hash__)
    return (type(c).__name__, tuple(sorted((k, str(v)) for k, v in c.groups.items())))


def custom_cores(en, v, rng):
    """For an edition with custom templates only: a validated member of one of its patterns written with
    the canonical reporter string, and the same text with the variation spelling substituted."""
    import re as _re
    from vmon.rxgen import sample
    for e in gen.DB.cit_extractors:
        if e.extra["short"] or en not in e.strings:
            continue
        if not any(x.short_name == en for x in e.extra["exact_editions"]):
            continue
        if not (e.regex.startswith(gen.PRE) and e.regex.endswith(gen.POST)):
            continue
        body = e.regex[len(gen.PRE):-len(gen.POST)]
        rx = _re.compile(body, e.flags)
        for _ in range(12):
            try:
                core = sample(body, rng, e.flags, maxrep=2)
            except Exception:
                break
            m = rx.fullmatch(core)
            if not m or "\n" in core or m.groupdict().get("reporter") != en:
                continue
            if not (m.groupdict().get("page") or "").isdigit():
                continue      # placeholder pages are equal only to themselves (other clause of the property)
            a, b = m.span("reporter")
            return core, core[:a] + v + core[b:]
    return None, None


_bodies = {}


def foreign_pattern_matches(core, en):
    """Does a citation pattern that belongs to another edition match exactly the same characters? (Then
    the written text is not an unambiguous spelling of `en`: 'Tenn. (Cooke)' is a variation of the reporter
    Cooke, but '448 Tenn. (Cooke) 798' is also the Tenn. reporter's own nominative form.)"""
    import re as _re
    for e in gen.DB.cit_extractors:
        if e.strings and not any(s in core for s in e.strings):
            continue
        if not (e.regex.startswith(gen.PRE) and e.regex.endswith(gen.POST)):
            continue
        if id(e) not in _bodies:
            _bodies[id(e)] = _re.compile(e.regex[len(gen.PRE):-len(gen.POST)], e.flags)
        if _bodies[id(e)].fullmatch(core):
            eds = list(e.extra["exact_editions"]) + list(e.extra["variation_editions"])
            if any(x.short_name != en for x in eds):
                return True
    return False


def db_pairs(spec, rec):
    from eyecite.models import Resource
    rng = random.Random(spec["seed"])
    allpairs = [(en, v, False) for en, v in gen.DB.pairs] + [(en, v, True) for en, v in gen.DB.custom_pairs]
    for n, (en, v, custom) in enumerate(allpairs):
        if n % spec["nshards"] != spec["i"]:
            continue
        vol, page = rng.randint(1, 999), rng.randint(1, 999)
        if custom:
            core_c, core_v = custom_cores(en, v, rng)
            if core_c is None:
                rec.count("custom_pair_without_member")
                continue
            rec.count("custom_template_pairs")
        else:
            core_c, core_v = f"{vol} {en} {page}", f"{vol} {v} {page}"
        canon = one_case(core_c)
        if canon is None:
            rec.count("canonical_not_single_citation")
            continue
        P, D = gen.word(rng), gen.word(rng)
        ctx = (f"{rng.choice(['See ', 'In ', ''])}{P} v. {D}, {core_v}, {page + rng.randint(1, 20)} "
               f"({rng.randint(1800, 2020)}) ({gen.paren(rng)})")
        c = one_case(ctx)
        if c is None:
            rec.count("variation_not_single_citation")
            if not custom and one_case(core_v) is None and not case_citations(core_v):
                # the database lists this spelling, the canonical spelling is recognised in the same form, and
                # the variation yields no case citation at all: it cannot be "equal to the canonical spelling"
                rec.violation("C16.variation_not_recognised", dict(canonical=en, variation=v, canonical_text=core_c, text=core_v))
            continue
        rec.ev()
        rec.count("db_pairs")
        rec.nontrivial([en, v])
        case = dict(canonical=en, variation=v, canonical_text=core_c, context=ctx)
        same_guess = (c.edition_guess is not None and canon.edition_guess is not None
                      and c.edition_guess.short_name == canon.edition_guess.short_name)
        # independent of the library's own guess: the database relates this spelling to exactly one
        # edition, namely the canonical one -> the mapping is unambiguous whatever the year or context
        rel = gen.DB.related.get(v, set())
        db_unambiguous = len(rel) == 1 and next(iter(rel))[2] == en and v not in gen.DB.journals
        if db_unambiguous and not same_guess and foreign_pattern_matches(core_v, en):
            rec.count("second_pattern_tie")
            db_unambiguous = False
        if db_unambiguous:
            rec.count("db_pairs_unambiguous_by_database")
            same_guess = True
        if type(c) is not type(canon):
            # e.g. the database lists 'T.C. at' as a variation of 'T.C.': the text is then a *short* citation,
            # and citations of different kinds are never equal (same property): not an unambiguous mapping
            rec.count("variation_parsed_as_other_kind")
            same_guess = False
        if same_guess:
            rec.count("db_pairs_unambiguous")
            if not (c == canon and canon == c):
                rec.violation("C16.variation_not_equal_canonical", case)
            if hash(c) != hash(canon):
                rec.violation("C16.variation_hash_differs", case)
            if not (Resource(c) == Resource(canon) and hash(Resource(c)) == hash(Resource(canon))):
                rec.violation("C16.variation_resource_differs", case)
        else:
            rec.count("db_pairs_ambiguous")
        exp = key(c) == key(canon)
        if (c == canon) != exp:
            rec.violation("C16.eq_disagrees_with_key", case, observed=(c == canon), expected=exp)
        if len(rec.samples) < 2:
            rec.sample(dict(case, equal=(c == canon)))


def cross_template(spec, rec):
    """The same volume / reporter / page written in two templates of one edition (e.g. with the year in
    the middle, '100 S. Ct. (1980) 200', and in the plain form '100 S. Ct. 200') cites the same document."""
    import re as _re
    from vmon.rxgen import sample
    from eyecite.models import FullCaseCitation, Resource
    rng = random.Random(spec["seed"] + 3)
    std = set(gen.DB.std_all) | {en for en, _ in gen.DB.pairs}
    n = 0
    for e in gen.DB.cit_extractors:
        if e.extra["short"] or not (e.regex.startswith(gen.PRE) and e.regex.endswith(gen.POST)):
            continue
        body = e.regex[len(gen.PRE):-len(gen.POST)]
        try:
            rx = _re.compile(body, e.flags)
        except _re.error:
            continue
        if not set(rx.groupindex) - {"volume", "reporter", "page"} or not {"volume", "reporter", "page"} <= set(rx.groupindex):
            continue
        n += 1
        if n % spec["nshards"] != spec["i"]:
            continue
        for _ in range(10):
            try:
                core = sample(body, rng, e.flags, maxrep=2)
            except Exception:
                break
            m = rx.fullmatch(core)
            if not m or "\n" in core:
                continue
            g = m.groupdict()
            if not (g.get("volume") or "").isdigit() or not (g.get("page") or "").isdigit() or g.get("reporter") not in std:
                continue
            a = one_case(core)
            b = one_case(f"{g['volume']} {g['reporter']} {g['page']}")
            if a is None or b is None or type(a) is not FullCaseCitation or type(b) is not FullCaseCitation:
                break
            if a.groups.get("volume") != b.groups.get("volume") or a.groups.get("page") != b.groups.get("page"):
                break     # another pattern read the text differently: not the same written components
            rec.ev()
            rec.count("cross_template_pairs")
            rec.nontrivial(["xt", core])
            exp = key(a) == key(b)
            case = dict(template_text=core, plain_text=f"{g['volume']} {g['reporter']} {g['page']}")
            if (a == b) != exp or (exp and (hash(a) != hash(b) or Resource(a) != Resource(b))):
                rec.violation("C16.cross_template_equality", case, observed=(a == b), expected=exp)
            break


def roundtrips(spec, rec):
    rng = random.Random(spec["seed"] + 5)
    eds = sorted({en for en, _ in gen.DB.pairs} | set(gen.DB.std))
    for n, en in enumerate(eds):
        if n % spec["nshards"] != spec["i"]:
            continue
        # every numeric page the plain shape accepts: ordinary, with leading zeros, zero, long
        shapes = [("plain", str(rng.randint(1, 999))), ("leading_zero", rng.choice(["045", "007", "0100", "00"])),
                  ("long", str(rng.randint(10 ** 6, 10 ** 9))), ("one_digit", rng.choice("0123456789"))]
        for shape, page in shapes:
            vol = rng.choice([rng.randint(1, 999), rng.randint(1000, 2100), 1])
            c = one_case(f"{vol} {en} {page}")
            if c is None:
                continue
            if not (c.matched_text() == f"{vol} {en} {page}"):
                continue   # not the plain volume-reporter-page shape
            t2 = c.corrected_citation()
            c2 = one_case(t2)
            rec.ev()
            rec.count("roundtrips")
            rec.count("roundtrip_page:" + shape)
            case = dict(reporter=en, text=f"{vol} {en} {page}", corrected=t2)
            if c2 is None:
                rec.violation("C16.normal_form_does_not_reparse", case)
                continue
            if not (c2 == c and hash(c2) == hash(c)):
                rec.violation("C16.normal_form_reparses_unequal", case)
            if c2.corrected_citation() != t2:
                rec.violation("C16.normal_form_not_fixed_point", case, observed=c2.corrected_citation())


def pool(spec, rec, rng):
    from eyecite import get_citations
    from eyecite.models import (CaseCitation, FullCaseCitation, FullCitation, IdCitation, Resource,
                                ShortCaseCitation, UnknownCitation)
    cits = []
    vols = [rng.randint(1, 30) for _ in range(3)]
    pages = [rng.randint(1, 50) for _ in range(3)]
    for _ in range(60):
        r = rng.random()
        v, p, rp = rng.choice(vols), rng.choice(pages), rng.choice(REPS)
        if r < 0.45:
            t = (f"{gen.word(rng)} v. {gen.word(rng)}, {v} {rp} {p}"
                 + rng.choice(["", f", {p + 2}", f" ({rng.randint(1900, 2020)})", f", {p + 1} (1999) (noting {gen.word(rng).lower()})"]))
        elif r < 0.5:
            # nominative parentheticals do not matter: '5 U.S. (1 Cranch) 137' is '5 U.S. 137'
            t = f"{gen.word(rng)} v. {gen.word(rng)}, {v} U.S. ({rng.randint(1, 9)} {rng.choice(['Cranch', 'Wheat.', 'Pet.', 'How.', 'Wall.', 'Dall.', 'Black'])}) {p} (18{rng.randint(10, 70)})"
            rec.count("nominative_forms")
        elif r < 0.6:
            t = f"{gen.word(rng)}, {v} {rp} at {p}"
        elif r < 0.68:
            t = f"{gen.word(rng)} v. {gen.word(rng)}, {v} {rp} {rng.choice(['___', '_', '__'])} (2020)"
        elif r < 0.76:
            t = rng.choice(["Id. at 5.", "Id.", f"{gen.word(rng)}, supra, at {p}", "§ 5 of the Act"])
        elif r < 0.86:
            t = rng.choice([f"{v} Minn. L. Rev. {p}", f"{v} Harv. L. Rev. {p}, {p + 1} (1990)", f"{v} Minn. L. Rev. {p} (2001)"])
        else:
            t = rng.choice(["Mass. Gen. Laws ch. 1, § 2", "Mass. Gen. Laws ch. 1, § 2 (West 1999)", "42 U.S.C. § 1983",
                            f"{v} U.S.C. § {p}"])
        try:
            cits += get_citations(t)
        except Exception:
            pass
    rec.count("pools")
    keys = [key(c) for c in cits]
    hashes = [hash(c) for c in cits]
    for i, c in enumerate(cits):
        if not (c == c):
            rec.violation("C16.not_reflexive", dict(citation=repr(c)[:200]))
        if isinstance(c, (IdCitation, UnknownCitation)) or (isinstance(c, CaseCitation) and refmodel.placeholder_page(c)):
            rec.count("placeholder_objects")
    n = len(cits)
    eq = [[False] * n for _ in range(n)]
    for i, j in itertools.combinations(range(n), 2):
        a, b = cits[i], cits[j]
        rec.count("pool_pairs")
        e1, e2 = (a == b), (b == a)
        eq[i][j] = eq[j][i] = e1
        case = dict(a=repr(a)[:220], b=repr(b)[:220])
        if e1 != e2:
            rec.violation("C16.not_symmetric", case)
        exp = keys[i] == keys[j]
        if e1 != exp:
            rec.violation("C16.eq_disagrees_with_key", case, observed=e1, expected=exp)
        if e1 and hashes[i] != hashes[j]:
            rec.violation("C16.equal_but_hash_differs", case)
        if e1:
            rec.count("pool_equal_pairs")
        if type(a) is not type(b):
            rec.count("cross_kind_pairs")
            if e1:
                rec.violation("C16.equal_across_kinds", case)
        if isinstance(a, FullCitation) and isinstance(b, FullCitation):
            re_ = Resource(a) == Resource(b)
            if re_ != e1 or (re_ and hash(Resource(a)) != hash(Resource(b))):
                rec.violation("C16.resource_eq_disagrees", case, observed=re_, expected=e1)
    rec.ev(n * (n - 1) // 2)
    # transitivity on the observed relation
    for i in range(n):
        for j in range(n):
            if i != j and eq[i][j]:
                for k in range(n):
                    if k not in (i, j) and eq[j][k] and not eq[i][k]:
                        rec.violation("C16.not_transitive", dict(a=repr(cits[i])[:150], b=repr(cits[j])[:150], c=repr(cits[k])[:150]))
    rec.nontrivial(["pool", spec["seed"], n, tuple(str(k)[:30] for k in keys[:5])])


def nominative_db_forms(spec, rec):
    """Every official-plus-nominative form that reporters-db describes ('5 U.S. (1 Cranch) 137', '3 Tenn.
    (Cooke) 100'): equal to the plain form '5 U.S. 137' and to each other, whatever other pattern also
    matches the same characters."""
    from reporters_db import REPORTERS
    from eyecite.models import FullCaseCitation, Resource
    rng = random.Random(spec["seed"] + 21)
    n = 0
    for rkey, cl in sorted(REPORTERS.items()):
        for src in cl:
            for en, ed in sorted(src["editions"].items()):
                for t in ed.get("regexes") or []:
                    m = re.search(r"\(\?P<reporter_nominative>([^)]*)\)", t)
                    if not m:
                        continue
                    for nom in m.group(1).split("|"):
                        nom = re.sub(r"\\(.)", r"\1", nom)
                        n += 1
                        if n % spec["nshards"] != spec["i"]:
                            continue
                        v, p = rng.randint(1, 99), rng.randint(1, 900)
                        forms = [f"{v} {en} {p}", f"{v} {en} ({nom}) {p}", f"{v} {en} ({rng.randint(1, 9)} {nom}) {p}"]
                        cs = []
                        for f in forms:
                            c = one_case(rng.choice(["", "See "]) + f + rng.choice(["", ", 5 (holding x).", " (1850)."]))
                            if c is None or type(c) is not FullCaseCitation or c.matched_text() != f:
                                cs = None
                                break
                            cs.append(c)
                        if not cs:
                            rec.count("nominative_form_not_extracted_as_written")
                            continue
                        rec.ev()
                        rec.count("nominative_db_forms")
                        rec.nontrivial(forms)
                        for a, b, fa, fb in ((cs[0], cs[1], forms[0], forms[1]), (cs[0], cs[2], forms[0], forms[2]), (cs[1], cs[2], forms[1], forms[2])):
                            if not (a == b and hash(a) == hash(b) and Resource(a) == Resource(b)):
                                rec.violation("C16.nominative_form_not_equal", dict(forms=[fa, fb]),
                                              observed=dict(reporters=[refmodel.norm_reporter(a), refmodel.norm_reporter(b)]))


def run_shard(spec, rec):
    instrument.install(rec, what=())
    nominative_db_forms(spec, rec)
    db_pairs(spec, rec)
    cross_template(spec, rec)
    roundtrips(spec, rec)
    rng = random.Random(spec["seed"] + 9)
    for _ in range(spec["npool"]):
        pool(spec, rec, rng)


def replay(w, rec):
    c = w["case"]
    if "forms" in c:
        a, b = one_case(c["forms"][0]), one_case(c["forms"][1])
        if a is None or b is None or not (a == b and hash(a) == hash(b)):
            rec.violation(w["monitor"], c)
    elif "template_text" in c:
        a, b = one_case(c["template_text"]), one_case(c["plain_text"])
        if a is None or b is None or (a == b) != (key(a) == key(b)):
            rec.violation(w["monitor"], c)
    elif "variation" in c and "text" in c and "context" not in c:
        if not case_citations(c["text"]) and one_case(c["canonical_text"]) is not None:
            rec.violation(w["monitor"], c)
    elif "context" in c:
        from eyecite.models import Resource
        a, b = one_case(c["context"]), one_case(c["canonical_text"])
        if a is None or b is None or not (a == b and hash(a) == hash(b) and Resource(a) == Resource(b)):
            rec.violation(w["monitor"], c)
    else:
        rec.note("pool witness: re-run the check with the same seed")
