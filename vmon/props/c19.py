"""C19 Markup mode only adds well-founded reference citations."""
import random
import re

from vmon import gen, instrument, tok
from vmon import monitors as M

LEVEL = "exploration"
RULE = ("marked-up legal documents (italic/emphasis around party names with and without trailing punctuation "
        "inside the tag, paragraphs, entities, extra whitespace, bold headings) x cleaning step lists that "
        "contain the html step; oracle: the non-reference citations of get_citations(markup_text=m, "
        "clean_steps=s) serialise identically (type, spans, groups, metadata, year, editions) to those of "
        "get_citations(clean_text(m, s)); every reference citation (either mode) has offsets inside the "
        "cleaned text, lies after an earlier full case citation, and its text at its span contains "
        "(whitespace-normalised) a name field of such a citation that passes the name-validity rule; "
        "non-trivial = document yielding >= 1 reference citation; distinct = distinct (markup, steps)")
ASSUMPTIONS = ["the name-validity rule is re-implemented in the monitor from its documentation "
               "(length > 2, capitalised, no trailing period, not a number, not a disallowed name)"]
FLOORS = {"quick": {"documents": 2000, "references_markup_mode": 800, "references_plain_mode": 300,
                    "markup_only_references": 300, "same_markup_other_steps": 500, "callable_step_lists": 400, "nonreference_citations_compared": 5000, "long_documents_in_batch": 40},
          "thorough": {"documents": 100000, "references_markup_mode": 40000, "markup_only_references": 15000}}
N = {"quick": 300, "thorough": 14000}
SHARDS = {"quick": 8, "thorough": 14}
PROBES = [("<p><em>Nobelman v. Am. Sav. Bank, </em> 508 U.S. 324 (1993). That plan <em>Nobelman </em>at 332.</p>",
           ["html", "all_whitespace"])]


def plan(tier, seed):
    return [dict(i=i, n=N[tier], seed=seed * 1000 + i, probes=(i == 0)) for i in range(SHARDS[tier])]


def classify(v):
    return None


def valid_name(name):
    from eyecite.utils import DISALLOWED_NAMES
    return (isinstance(name, str) and len(name) > 2 and name[0].isupper() and not name.endswith(".")
            and not name.isdigit() and name.lower() not in DISALLOWED_NAMES)


def norm(s):
    return re.sub(r"\s+", " ", s)


def respace_us(t):
    """a custom (callable) cleaning step, as the API allows: respell a reporter"""
    return t.replace("U.S.", "U. S.")


def drop_years(t):
    return re.sub(r" \((?:[^()]*\s)?\d{4}\)", "", t)


CALLABLE_LISTS = [["html", respace_us, "all_whitespace"], [respace_us, "html"], ["html", "inline_whitespace", drop_years],
                  ["html", drop_years, respace_us]]


def check(m, steps, rec, T):
    from eyecite import clean_text, get_citations
    from eyecite.models import FullCaseCitation, ReferenceCitation
    case = dict(markup=m, steps=[x if isinstance(x, str) else "callable:" + x.__name__ for x in steps])
    try:
        A = get_citations(markup_text=m, clean_steps=steps, tokenizer=T)
        plain = clean_text(m, steps)
        B = get_citations(plain, tokenizer=T)
    except Exception as e:
        rec.count("raised:" + type(e).__name__)
        return
    rec.ev()
    rec.count("documents")
    a = [M.ser(c) for c in A if not isinstance(c, ReferenceCitation)]
    b = [M.ser(c) for c in B if not isinstance(c, ReferenceCitation)]
    rec.count("nonreference_citations_compared", len(b))
    if a != b:
        rec.violation("C19.nonreference_citations_differ", case,
                      observed=[x for x in a if x not in b][:3], expected=[x for x in b if x not in a][:3])
    plain_ref_spans = {c.span() for c in B if isinstance(c, ReferenceCitation)}
    for mode, L in (("markup", A), ("plain", B)):
        for idx, c in enumerate(L):
            if not isinstance(c, ReferenceCitation):
                continue
            rec.count("references_" + mode + "_mode")
            if mode == "markup" and c.span() not in plain_ref_spans:
                rec.count("markup_only_references")
            s0, s1 = c.span()
            f0, f1 = c.full_span()
            if not (0 <= f0 <= s0 <= s1 <= f1 <= len(plain)):
                rec.violation("C19.reference_offsets_invalid", dict(case, mode=mode), observed=dict(span=(s0, s1), full=(f0, f1), n=len(plain)))
                continue
            txt = norm(plain[s0:s1])
            founded = False
            for f in L:
                if isinstance(f, FullCaseCitation) and f.span()[1] <= s0:
                    for k in ("plaintiff", "defendant", "resolved_case_name_short", "resolved_case_name"):
                        v = getattr(f.metadata, k, None)
                        if v and valid_name(v) and norm(v.strip()) in txt:
                            founded = True
            if not founded and mode == "markup" and c.span() not in plain_ref_spans \
                    and any(not isinstance(x, str) for x in steps):
                # a custom callable step that rewrites the text (deletes years, respells a reporter) leaves the
                # markup -> plain translation of a markup-derived reference to a diff between texts that differ by
                # more than inserted material: only monotone / in-range is promised there (C10's statement), so
                # the exact-name clause is decided for the shipped cleaners only; range and order were checked
                rec.count("markup_reference_through_rewriting_callable_not_judged")
                continue
            if not founded:
                rec.violation("C19.reference_unfounded", dict(case, mode=mode),
                              observed=dict(text_at_span=plain[s0:s1], span=(s0, s1),
                                            earlier_names=[(f.metadata.plaintiff, f.metadata.defendant) for f in L
                                                           if isinstance(f, FullCaseCitation) and f.span()[1] <= s0][:6]))
    if any(isinstance(c, ReferenceCitation) for c in A):
        rec.nontrivial([m, steps])
        if len(rec.samples) < 3:
            rec.sample(dict(markup=m, steps=steps, references=[(c.span(), plain[c.span()[0]:c.span()[1]]) for c in A
                                                              if isinstance(c, ReferenceCitation)][:5]))


def run_shard(spec, rec):
    instrument.install(rec, what=())
    rng = random.Random(spec["seed"])
    ac = tok.get("ac")
    if spec.get("probes"):
        for m, s in PROBES:
            check(m, s, rec, ac)
    long_batch(spec, rec, ac)
    for k in range(spec["n"]):
        m = gen.markup_doc(rng)
        steps = rng.choice(gen.MARKUP_STEPS)
        check(m, steps, rec, ac)
        if k % 4 == 1:
            rec.count("callable_step_lists")
            check(m, rng.choice(CALLABLE_LISTS), rec, ac)
        if k % 3 == 0:
            # history: the same markup again with the same steps in another order / another list
            # (every list still contains the html step)
            other = list(steps)
            rng.shuffle(other)
            if other == list(steps):
                other = rng.choice([x for x in gen.MARKUP_STEPS + [["all_whitespace", "html"], ["underscores", "html"]]
                                    if x != list(steps)])
            rec.count("same_markup_other_steps")
            check(m, other, rec, ac)
            check(m, steps, rec, ac)


def long_batch(spec, rec, ac):
    """Long marked-up opinions (12,000-25,000 characters) processed one after the other in one process, all
    citing the SAME volume/reporter/page in full with different party names at different places: what a
    document's references are founded on is its own text, not an earlier document's."""
    rng = random.Random(spec["seed"] + 1717)
    for _ in range(spec.get("nlong", 2)):
        vol, rep, page = rng.randint(1, 600), rng.choice(gen.MK_REPS), rng.randint(1, 900)
        docs = []
        for _d in range(2):
            P, D = rng.sample([n for n in gen.MK_NAMES if " " not in n and n not in ("State", "May", "Will", "Mark")], 2)
            paras, size = [], 0
            target = rng.randint(12000, 25000)
            where = rng.randint(1, 6)
            while size < target:
                # mostly ordinary prose: long opinions are not citation-dense, and a reference that lands
                # in prose is not absorbed by a neighbouring citation's extent
                para = gen.markup_doc(rng) if rng.random() < 0.15 else "<p>" + gen.filler(rng, rng.randint(200, 900)).capitalize() + ".</p>"
                if len(paras) == where:
                    para = (f"<p>See {gen._it(rng, P + ' v. ' + D + ',')} {vol} {rep} {page} ({rng.randint(1950, 2020)}). "
                            f"In {gen._it(rng, D)}, the court held otherwise; {gen._it(rng, P)} at {page + 2}.</p>")
                paras.append(para)
                size += len(para)
            # one more reference far into the document
            paras.append(f"<p>As {gen._it(rng, D)} shows, and {gen._it(rng, P + ',')} too.</p>")
            docs.append("\n".join(paras))
        steps = rng.choice([["html", "all_whitespace"], ["html", "inline_whitespace"]])
        for m in (docs[0], docs[1], docs[0], docs[1]):
            rec.count("long_documents_in_batch")
            check(m, steps, rec, ac)


def replay(w, rec):
    c = w["case"]
    steps = [globals()[x.split(":", 1)[1]] if x.startswith("callable:") else x for x in c["steps"]]
    check(c["markup"], steps, rec, tok.get("ac"))
