"""C15 Extraction is a pure function of its input.

History checker over recorded (process, hash seed, thread, call index, text
id, options, serialised result) events: all events with the same (text,
options) must be equal."""
import json
import os
import random
import sys
import threading
import time

from vmon import core, gen, instrument, tok
from vmon import monitors as M
from vmon.rxgen import sample

LEVEL = "exploration"
RULE = ("corpus = EVERY standard-template reporter string and journal key of the database in minimal form + known tie texts (two patterns matching the same characters) + validated members of "
        "randomly chosen extractor patterns + dense hostile documents + marked-up documents; every (text, "
        "options) is evaluated (1) in fresh interpreters under different PYTHONHASHSEED values, (2) twice in "
        "one process in different call orders with unrelated texts in between, with a deep snapshot of the "
        "earlier result re-compared afterwards and the clean_steps list compared, (3) from 8 threads sharing "
        "default_tokenizer under sys.monitoring yield injection at eyecite source lines; oracle = all "
        "serialisations (kinds, spans, groups, metadata, ordered candidate editions, guess, value hashes) of "
        "one (text, options) are equal; non-trivial = (text, options) with >= 1 citation; distinct = "
        "distinct (text, options)")
ASSUMPTIONS = ["hash(int) of the sha256-derived value hashes does not depend on PYTHONHASHSEED (CPython)",
               "thread schedules are those the GIL and injected sleep(0) produced; the evidence reports "
               "how many forced switches at how many distinct source lines were observed"]
FLOORS = {"quick": {"hash_seeds": 6, "texts_per_seed": 5000, "tie_texts": 20, "cross_seed_comparisons": 30000,
                    "repeat_comparisons": 1000, "snapshot_rechecks": 500, "threaded_calls": 1000,
                    "forced_switches": 1000, "distinct_switch_points": 100, "cold_start_calls": 200, "cold_first_processes": 6, "cold_first_observations": 40},
          "thorough": {"hash_seeds": 32, "texts_per_seed": 5000, "cross_seed_comparisons": 200000,
                       "threaded_calls": 20000, "forced_switches": 50000}}
SEEDS = {"quick": [0, 1, 2, 3, 4, 5, 6, 7], "thorough": list(range(40))}
NCORP = {"quick": 120, "thorough": 700}
TIES = ["supra,§,", "1 CCH Unemployment Ins. Rep. 1", "1 Wash. 1 (1890); 2 P.R. 3 (1831)", "1 P.R. 1", "2 Mass. 3",
        "1 A. 2", "1 Cal. 2", "1 Miss. 1", "1 S.C. 1", "1 Va. 1", "1 Tex. 1", "Shapiro v. Thompson, 394 U. S. 618",
        "See Foo v. Bar, 1 U.S. 1 (1999). Id. at 5.", "Roe, 410 U.S. at 120; Foo, supra, at 3", "1 Ohio 1; 1 Ohio St. 1",
        "5 Johns. 5", "1 Abb. 1", "1 Md. 1 (1851)", "3 Pa. 3 (1846)", "1 Ill. 1", "1 N.Y. 1", "2 Minn. 2", "1 Or. 1",
        "id. §, v. see", "4 Ark. 4", "1 La. 1", "1 Mich. 1", "7 Ky. 7", "1 N.C. 1", "1 Tenn. 1"]


def corpus(seed, n):
    """Deterministic corpus (independent of the hash seed by construction:
    only seeded PRNG choices over sorted lists)."""
    from eyecite.tokenizers import EXTRACTORS
    rng = random.Random(f"c15-{seed}")
    texts = [(t, None) for t in TIES]
    for nm in ("Jones", "Halper", "Twombly", "Roe"):
        # identical plaintiff and defendant: two name fields compete for the same reference text
        texts.append((f"{nm} v. {nm}, 1 U.S. 1 (1999). Later, {nm} at 5 was distinguished; {nm} at 7.", None))
        texts.append((f"<p><em>{nm} v. {nm}</em>, 2 F.2d 2 (1950). In <i>{nm}</i> the court held; {nm} at 9.</p>",
                      ["html", "all_whitespace"]))
    for nm, other in (("Harlow", "State"), ("Quimby", "People"), ("Zorbex", "United States"), ("Lissner", "Amick")):
        # the same name as defendant of one case and plaintiff of another (different documents)
        for P, D, r in ((other, nm, "U.S."), (nm, other, "F.2d")):
            texts.append((f"<p>See {P} v. {D}, 3 {r} 3 (1990). In <em>{nm}</em>, the court held otherwise; <i>{nm}</i> at 9.</p>",
                          ["html", "all_whitespace"]))
            texts.append((f"See {P} v. {D}, 3 {r} 3 (1990). In {nm} at 5, the court held otherwise.", None))
    for t in ("Foo, 515 U.S. at ___ (Thomas, J., dissenting).", "Foo v. Bar, 1 U.S. ___ (2020) (per curiam). Id. at ___ (same).",
              "Bar, supra, at ___ (emphasis added); 7 Minn. L. Rev. ___ (1995) (discussing x).", "Roe, 410 U.S., at _ (noting y)"):
        # placeholder pages: the page group is rewritten after the match - with a parenthetical behind it
        texts.append((t, None))
    k = 0
    while k < n:
        e = EXTRACTORS[rng.randrange(len(EXTRACTORS))]
        try:
            s = sample(e.regex, rng, e.flags)
        except Exception:
            continue
        if e.compiled_regex.search(s):
            texts.append((rng.choice(["", "See "]) + s + rng.choice(["", " (1999)", ". Id. at 5"]), None))
            k += 1
    for _ in range(n):
        texts.append((gen.dense_doc(rng, maxfrag=5), None))
    for _ in range(n // 4):
        texts.append((gen.markup_doc(rng), rng.choice(gen.MARKUP_STEPS)))
    for s in gen.test_corpus()[::7]:
        texts.append((s, None))
    # database-exhaustive: every standard-template reporter string and journal key in minimal form
    # (hash-seed dependence may hide in the few strings matched by two templates at once)
    for k, r in enumerate(gen.DB.std_all + gen.DB.journals):
        texts.append((f"{1 + k % 9} {r} {1 + k % 7}", None))
        if k % 4 == 0:
            texts.append((f"Foo, {1 + k % 9} {r} at {1 + k % 7}.", None))
    return texts


COLD_PROBES = [
    # lazily initialised or one-shot module state shows when a text is the very first one a process sees
    "Smith v. Jackson, 1 U.S. 1 (1999). In Jackson at 125 the court agreed; Smith at 3.",
    "Foo v. Bar, 2 F.2d 2 (D. Mass. 1950). Id. at 5. Bar, supra, at 6; Bar at 7.",
    "Miller v. Lee, 3 U.S. 3 (Wyo. 2001). As Lee at 9 and Miller at 10 show.",
    "<p><em>Mitchell v. Clark</em>, 4 U.S. 4 (1980). In <i>Clark</i> the court; Mitchell at 8.</p>",
    "1 Wash. 1 (1890); 2 P.R. 3 (1831); 42 U.S.C. § 1983; Mass. Gen. Laws ch. 1, § 2 (West 1999).",
    "Roe, 410 U.S. at 120 (Vt. 1999); Stone v. Rogers, 5 U.S. 5 (4th Cir. 1999). Rogers at 6.",
]


def plan(tier, seed):
    specs = [dict(part="seed", hashseed=k, env={"PYTHONHASHSEED": str(k)}, seed=seed, n=NCORP[tier])
             for k in SEEDS[tier]]
    specs += [dict(part="repeat", seed=seed, n=NCORP[tier], i=i, env={"PYTHONHASHSEED": str(100 + i)}) for i in range(2)]
    specs += [dict(part="coldfirst", seed=seed, probe=j, env={"PYTHONHASHSEED": str(300 + j)})
              for j in range(len(COLD_PROBES))]
    nthr = 4 if tier == "quick" else 12
    specs += [dict(part="threads", seed=seed, i=i, calls=(50 if tier == "quick" else 300),
                   env={"PYTHONHASHSEED": str(200 + i)}) for i in range(nthr)]
    return specs


def prepare(tier, seed, workdir):
    tok.prebuild_hs()


def classify(v):
    return None


def evaluate(text, steps, opts, toks):
    """One client call; returns the serialised result (or the exception)."""
    from eyecite import get_citations
    T = toks[opts["tok"]]
    try:
        if steps is not None:
            cs = get_citations(markup_text=text, clean_steps=steps, tokenizer=T, remove_ambiguous=opts["amb"])
        else:
            cs = get_citations(text, tokenizer=T, remove_ambiguous=opts["amb"])
    except Exception as e:
        return None, ["raised", type(e).__name__]
    return cs, [M.ser(c, with_hash=True) for c in cs]


OPTS = [dict(tok="ac", amb=False), dict(tok="ac", amb=True), dict(tok="hs", amb=False)]


def run_seed(spec, rec):
    toks = {"ac": tok.get("ac"), "hs": tok.get("hs")}
    out = {}
    texts = corpus(spec["seed"], spec["n"])
    order = list(range(len(texts)))
    if spec["hashseed"] % 2:
        # the odd processes also walk the corpus in their own order: the result for a text may not depend on
        # which other texts the process has seen before it (a difference between processes is then due to
        # the hash seed or to the call history - the witness names both)
        random.Random(f"order-{spec['hashseed']}").shuffle(order)
        rec.count("processes_with_own_call_order")
    for tid in order:
        text, steps = texts[tid]
        for oi, opts in enumerate(OPTS):
            if oi and tid % 3:
                continue
            cs, ser = evaluate(text, steps, opts, toks)
            rec.ev()
            out[f"{tid}|{oi}"] = dict(h=core.h64(ser), n=len(ser) if cs is not None else -1)
    rec.count("hash_seeds")
    rec.count("texts_per_seed", len(texts) if spec["hashseed"] == 0 else 0)
    with open(os.path.join(spec["workdir"], f"seed-{spec['hashseed']}.json"), "w") as f:
        json.dump(dict(hashseed=spec["hashseed"], results=out), f)


def run_repeat(spec, rec):
    """Same process: different call orders, unrelated texts in between,
    earlier results and inputs must not change."""
    toks = {"ac": tok.get("ac"), "hs": tok.get("hs")}
    rng = random.Random(f"rep-{spec['seed']}-{spec['i']}")
    texts = corpus(spec["seed"], spec["n"])
    texts = texts[:len(TIES) + 2 * spec["n"] + spec["n"] // 4 + 60] + texts[-400 - 300 * spec["i"]:][:300]
    first = {}
    held = []
    order = list(range(len(texts)))
    for pass_no in range(4):
        rng.shuffle(order)
        for tid in order:
            text, steps = texts[tid]
            opts = OPTS[(tid + pass_no) % len(OPTS)] if pass_no > 1 else OPTS[0]
            steps_in = list(steps) if steps is not None else None
            steps_before = list(steps_in) if steps_in is not None else None
            cs, ser = evaluate(text, steps_in, opts, toks)
            rec.ev()
            if steps_in != steps_before:
                rec.violation("C15.input_modified", dict(text=text, steps=steps_before, opts=opts), observed=steps_in)
            key = (tid, opts["tok"], opts["amb"])
            if key in first:
                rec.count("repeat_comparisons")
                if first[key] != ser:
                    rec.violation("C15.repeat_differs", dict(text=text, steps=steps, opts=opts),
                                  observed=ser[:4], expected=first[key][:4])
            else:
                first[key] = ser
                if cs:
                    rec.nontrivial([text, steps, opts])
            if cs and len(held) < 400:
                held.append((key, cs, ser, text, steps, opts))
            elif cs and rng.random() < 0.3:
                # what callers do with the list they were handed (merge in place, re-sort): it is theirs
                cs.extend(cs[:1])
                cs.reverse()
                rec.count("returned_lists_mutated_by_caller")
                # ... and the very next call asks for the same input again
                _, ser2 = evaluate(text, list(steps) if steps is not None else None, opts, toks)
                if ser2 != first[key]:
                    rec.violation("C15.repeat_differs_after_caller_changed_result", dict(text=text, steps=steps, opts=opts),
                                  observed=ser2[:4], expected=first[key][:4])
            if rng.random() < 0.3:
                evaluate(gen.dense_doc(rng, maxfrag=3), None, OPTS[0], toks)   # unrelated text in between
    # deep snapshot: results returned earlier must still serialise the same
    for key, cs, ser, text, steps, opts in held:
        rec.count("snapshot_rechecks")
        now = [M.ser(c, with_hash=True) for c in cs]
        if now != ser:
            rec.violation("C15.earlier_result_changed", dict(text=text, steps=steps, opts=opts),
                          observed=now[:4], expected=ser[:4])
    # shared module-level objects
    from eyecite.helpers import joke_cite
    j1 = [M.ser(c) for c in joke_cite]
    from eyecite import get_citations
    r = get_citations("eyecite")
    if r:
        r[0].metadata  # touch
    if [M.ser(c) for c in joke_cite] != j1:
        rec.violation("C15.shared_object_changed", dict(text="eyecite"), observed="joke_cite mutated")


def run_threads(spec, rec):
    """Threads sharing the default tokenizer, with yield injection."""
    import eyecite.find
    import eyecite.helpers
    import eyecite.models
    import eyecite.tokenizers
    toks = {"ac": tok.get("ac"), "hs": tok.get("ac")}
    texts = corpus(spec["seed"], 30)[:128]
    # Phase 1, COLD START: the very first calls of this fresh interpreter are made concurrently (lazily
    # initialised module state - compiled patterns, lookup tables - is filled under contention); the
    # sequential baseline is computed afterwards and compared with what the cold threads returned.
    cold = [(f"Foo v. Bar, {k + 1} U.S. {k + 2} ({c} 1999). Id. at {k + 3}.", None)
            for k, c in enumerate(["D. Mass.", "Wyo.", "Vt.", "4th Cir.", "Pa.", "S.D.N.Y.", "Tex. App.", "Cal. Ct. App."])]
    cold_results = {}
    barrier = threading.Barrier(8)

    def cold_work(k):
        barrier.wait()
        out = []
        for j in range(len(cold)):
            t, st = cold[(j + k) % len(cold)]
            out.append(((j + k) % len(cold), evaluate(t, st, OPTS[0], toks)[1]))
        cold_results[k] = out

    cths = [threading.Thread(target=cold_work, args=(k,)) for k in range(8)]
    [t.start() for t in cths]
    [t.join() for t in cths]
    cold_base = [evaluate(t, st, OPTS[0], toks)[1] for t, st in cold]
    for k, out in cold_results.items():
        for j, got in out:
            rec.count("cold_start_calls")
            if got != cold_base[j]:
                rec.violation("C15.cold_start_thread_result_differs", dict(text=cold[j][0], steps=None),
                              observed=got[:3], expected=cold_base[j][:3])
    base = {}
    for tid, (text, steps) in enumerate(texts):
        base[tid] = evaluate(text, steps, OPTS[0], toks)[1]
    mon = sys.monitoring
    tid_tool = mon.DEBUGGER_ID
    mon.use_tool_id(tid_tool, "vmon-yield")
    local = threading.local()
    switches = {}
    lock = threading.Lock()
    P = 0.03

    def on_line(code, line):
        r = getattr(local, "rng", None)
        if r is None:
            return
        if r.random() < P:
            with lock:
                switches[(code.co_name, line)] = switches.get((code.co_name, line), 0) + 1
            time.sleep(0)

    mon.register_callback(tid_tool, mon.events.LINE, on_line)
    codes = instrument.all_code_objects([eyecite.tokenizers, eyecite.find, eyecite.helpers, eyecite.models])
    for c in codes:
        mon.set_local_events(tid_tool, c, mon.events.LINE)
    rec.count("code_objects_instrumented", len(codes))
    bad = []
    nthreads = 8

    def work(k):
        local.rng = random.Random(f"thr-{spec['seed']}-{spec['i']}-{k}")
        r = random.Random(f"order-{spec['seed']}-{spec['i']}-{k}")
        for _ in range(spec["calls"]):
            t = r.randrange(len(texts))
            text, steps = texts[t]
            got = evaluate(text, list(steps) if steps else None, OPTS[0], toks)[1]
            if got != base[t]:
                bad.append((t, got))

    old = sys.getswitchinterval()
    sys.setswitchinterval(1e-6)
    try:
        ths = [threading.Thread(target=work, args=(k,)) for k in range(nthreads)]
        [t.start() for t in ths]
        [t.join() for t in ths]
    finally:
        sys.setswitchinterval(old)
        for c in codes:
            mon.set_local_events(tid_tool, c, 0)
        mon.register_callback(tid_tool, mon.events.LINE, None)
        mon.free_tool_id(tid_tool)
    rec.ev(nthreads * spec["calls"])
    rec.count("threaded_calls", nthreads * spec["calls"])
    rec.count("forced_switches", sum(switches.values()))
    rec.count("distinct_switch_points", len(switches))
    for t, got in bad[:10]:
        rec.violation("C15.thread_result_differs", dict(text=texts[t][0], steps=texts[t][1]),
                      observed=got[:4], expected=base[t][:4])
    rec.sample(dict(threads=nthreads, calls_each=spec["calls"], forced_switches=sum(switches.values()),
                    top_switch_points=sorted(switches.items(), key=lambda kv: -kv[1])[:5]))


def run_coldfirst(spec, rec):
    """The probe text is the first text this interpreter ever extracts from; afterwards the other probes
    and the same probe again: all results go to the parent's cross-process history check."""
    toks = {"ac": tok.get("ac"), "hs": tok.get("ac")}
    order = [spec["probe"]] + [j for j in range(len(COLD_PROBES)) if j != spec["probe"]] + [spec["probe"]]
    out = []
    for j in order:
        t = COLD_PROBES[j]
        steps = ["html", "all_whitespace"] if t.startswith("<p>") else None
        cs, ser = evaluate(t, steps, OPTS[0], toks)
        rec.ev()
        out.append((j, core.h64(ser), len(ser)))
    rec.count("cold_first_processes")
    with open(os.path.join(spec["workdir"], f"coldfirst-{spec['probe']}.json"), "w") as f:
        json.dump(out, f)


def run_shard(spec, rec):
    instrument.install(rec, what=())
    {"seed": run_seed, "repeat": run_repeat, "threads": run_threads, "coldfirst": run_coldfirst}[spec["part"]](spec, rec)


def finalize(agg, results):
    """Cross-process history check."""
    workdirs = {r["spec"]["workdir"] for r in results if r.get("spec")}
    per_seed = {}
    seed = None
    n = None
    for r in results:
        sp = r.get("spec") or {}
        if sp.get("part") != "seed":
            continue
        seed, n = sp["seed"], sp["n"]
        p = os.path.join(sp["workdir"], f"seed-{sp['hashseed']}.json")
        if os.path.exists(p):
            per_seed[sp["hashseed"]] = json.load(open(p))["results"]
    # cold-first processes: every (probe, position in the process's history) must give the same result
    by_probe = {}
    for r in results:
        sp = r.get("spec") or {}
        if sp.get("part") != "coldfirst":
            continue
        p = os.path.join(sp["workdir"], f"coldfirst-{sp['probe']}.json")
        if os.path.exists(p):
            for pos_, (j, h, n_) in enumerate(json.load(open(p))):
                by_probe.setdefault(j, []).append((sp["probe"], pos_, h))
    ncold = 0
    for j, obs in by_probe.items():
        ncold += len(obs)
        if len({h for _, _, h in obs}) > 1:
            groups = {}
            for first, pos_, h in obs:
                groups.setdefault(h, []).append(dict(process_started_with_probe=first, call_index=pos_))
            v = dict(monitor="C15.differs_with_call_history",
                     case=dict(text=COLD_PROBES[j], steps=(["html", "all_whitespace"] if COLD_PROBES[j].startswith("<p>") else None),
                               opts=OPTS[0]),
                     observed=dict(distinct_outputs=len(groups), histories_by_output=list(groups.values())[:4]), expected=None)
            agg["violations"].append(core.jsonable(v))
            agg["viol_counts"]["C15.differs_with_call_history|None"] = agg["viol_counts"].get("C15.differs_with_call_history|None", 0) + 1
    agg["counters"]["cold_first_observations"] = ncold
    if len(per_seed) < 2:
        return
    seeds = sorted(per_seed)
    ref = per_seed[seeds[0]]
    texts = None
    ncmp = 0
    ties = 0
    for key in ref:
        vals = {s: per_seed[s].get(key, {}).get("h") for s in seeds}
        ncmp += len(seeds) - 1
        tid = int(key.split("|")[0])
        if tid < len(TIES) + 28 and key.endswith("|0"):
            ties += 1
        if ref[key]["n"] > 0:
            agg["distinct"].add(core.h64(["c15", key]))
        if len(set(vals.values())) > 1:
            if texts is None:
                texts = corpus(seed, n)
            text, steps = texts[tid]
            groups = {}
            for s, h in vals.items():
                groups.setdefault(h, []).append(s)
            # even-numbered processes share one call order: if they agree among themselves and only the
            # odd ones (own call order) deviate, the call history is the likelier cause
            even = {h for s_, h in vals.items() if s_ % 2 == 0}
            mon = "C15.differs_across_hash_seeds" if len(even) > 1 else "C15.differs_with_call_order_or_hash_seed"
            v = dict(monitor=mon,
                     case=dict(text=text, steps=steps, opts=OPTS[int(key.split("|")[1])]),
                     observed=dict(distinct_outputs=len(groups), seeds_by_output=list(groups.values()),
                                   note="odd hash seeds also walk the corpus in their own order"), expected=None)
            agg["violations"].append(core.jsonable(v))
            agg["viol_counts"][mon + "|None"] = agg["viol_counts"].get(mon + "|None", 0) + 1
    agg["counters"]["cross_seed_comparisons"] = ncmp
    agg["counters"]["tie_texts"] = ties
    agg["samples"].insert(0, dict(hash_seeds=seeds, keys_compared=len(ref),
                                  example=dict(text=TIES[0], outputs_equal=True)))


def replay(w, rec):
    """Re-run the witness text under 6 hash seeds in fresh interpreters."""
    import subprocess
    c = w["case"]
    outs = {}
    code = ("import sys, json, logging; logging.disable(logging.CRITICAL)\n"
            "from vmon.props import c15; from vmon import tok, core\n"
            "c=json.loads(sys.argv[1]); toks={'ac':tok.get('ac'),'hs':tok.get('hs')}\n"
            "print(core.h64(c15.evaluate(c['text'], c.get('steps'), c.get('opts') or c15.OPTS[0], toks)[1]))\n")
    for s in range(6):
        p = subprocess.run([core.PY, "-c", code, json.dumps(c)], env=core.child_env({"PYTHONHASHSEED": s}),
                           cwd=core.VERIF, stdout=subprocess.PIPE, stderr=subprocess.PIPE, timeout=600)
        outs[s] = p.stdout.decode().strip().splitlines()[-1] if p.stdout.strip() else "dead"
    if len(set(outs.values())) > 1:
        rec.violation("C15.differs_across_hash_seeds", c, observed=outs)
