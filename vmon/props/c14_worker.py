"""Worker interpreter for the C14 cache fault cases. Writes a journal line
before ('start') and after ('done') every fault so that the parent can name
the fault that killed the process."""
import json
import os
import pathlib
import random
import shutil
import subprocess
import sys

from vmon import core
from vmon import monitors as M

TEXT = "See Foo v. Bar, 1 U.S. 1 (1999). Id. at 5. § 3; “2 U. S. 2” Roe, 3 U.S. at 4, supra. SEE 4 u.s. 5; ID. AT 6; 7 U.Z. 8"
WRITES = {"n": 0}
_orig_write_bytes = pathlib.Path.write_bytes


def _counting_write_bytes(self, data):
    WRITES["n"] += 1
    return _orig_write_bytes(self, data)


class Fixture:
    def __init__(self, full, cache_dir, n_us=6):
        from eyecite.tokenizers import EXTRACTORS, HyperscanTokenizer
        from vmon import tok
        self.full = full
        self.extractors = list(EXTRACTORS) if full else (
            [e for e in EXTRACTORS if "U\\.S\\." in e.regex][:n_us] + EXTRACTORS[-5:])
        self.HT = HyperscanTokenizer
        shutil.rmtree(cache_dir, ignore_errors=True)
        os.makedirs(cache_dir)
        if full:
            # reuse the database the parent pre-built (same fingerprint) instead of compiling 40 MB again
            for f in os.listdir(tok.hs_cache_dir()):
                shutil.copy(os.path.join(tok.hs_cache_dir(), f), os.path.join(cache_dir, f))
        t = HyperscanTokenizer(extractors=self.extractors, cache_dir=cache_dir)
        t.hyperscan_db
        files = sorted(os.listdir(cache_dir), key=lambda f: os.path.getmtime(os.path.join(cache_dir, f)))
        # the file this extractor list maps to is the one touched/created last
        self.name = self._fingerprint_file(cache_dir, files)
        for f in files:
            if f != self.name:
                os.remove(os.path.join(cache_dir, f))
        self.pristine = open(os.path.join(cache_dir, self.name), "rb").read()
        self.baseline = self.tokens(HyperscanTokenizer(extractors=self.extractors))

    def _fingerprint_file(self, cache_dir, files):
        if len(files) == 1:
            return files[0]
        # find by removing candidates: construct once more with a probe dir
        probe = cache_dir + "-probe"
        shutil.rmtree(probe, ignore_errors=True)
        os.makedirs(probe)
        t = self.HT(extractors=self.extractors, cache_dir=probe)
        t.hyperscan_db
        name = os.listdir(probe)[0]
        shutil.rmtree(probe, ignore_errors=True)
        return name

    @staticmethod
    def tokens(t):
        return [M.ser_token(x) for x in sorted(t.extract_tokens(TEXT), key=lambda m: (m.start, -m.end, type(m).__name__,
                                                                                      json.dumps(M.ser_token(m), default=str)))]


def apply_fault(f, fx, cache_dir):
    """Put the cache directory into the faulty state. Returns True when the
    file differs from the pristine one."""
    path = os.path.join(cache_dir, fx.name)
    data = fx.pristine
    k = f["kind"]
    os.makedirs(cache_dir, exist_ok=True)
    if k == "truncate":
        new = data[:f["n"]]
    elif k == "bitflip_header":
        b = bytearray(data); b[f["pos"]] ^= (1 << f["bit"]); new = bytes(b)
    elif k in ("byte_body", "version_field"):
        b = bytearray(data); b[f["pos"]] = f["val"] if b[f["pos"]] != f["val"] else (f["val"] ^ 0xFF); new = bytes(b)
    elif k == "garbage":
        new = random.Random(f["seed"]).randbytes(f["n"])
    elif k == "append":
        new = data + random.Random(f["seed"]).randbytes(f["n"])
    elif k == "empty":
        new = b""
    elif k == "crash_during_write":
        # source-free failpoint at the non-atomic write: the process "dies"
        # after n bytes reached the disk
        if os.path.exists(path):
            os.remove(path)

        def crashing(self, payload):
            with open(self, "wb") as fh:
                fh.write(payload[:f["n"]])
            raise KeyboardInterrupt("simulated crash during cache write")
        pathlib.Path.write_bytes = crashing
        try:
            t = fx.HT(extractors=fx.extractors, cache_dir=cache_dir)
            t.hyperscan_db
        except KeyboardInterrupt:
            pass
        finally:
            pathlib.Path.write_bytes = _counting_write_bytes
        return True
    elif k == "dir_state":
        shutil.rmtree(cache_dir, ignore_errors=True)
        if f["state"] == "other_files":
            os.makedirs(cache_dir)
            open(os.path.join(cache_dir, "README"), "w").write("unrelated")
            open(os.path.join(cache_dir, "0" * 32), "wb").write(b"stale database of other patterns")
        elif f["state"] == "file_in_the_way_removed":
            os.makedirs(cache_dir)
        return True
    elif k == "cache_filled_by_variant":
        # the directory already holds the database of a near-identical extractor list (same patterns with
        # other flags / one pattern changed / other order): it must not be served for this list
        import re as _re
        from eyecite.models import TokenExtractor
        shutil.rmtree(cache_dir, ignore_errors=True)
        os.makedirs(cache_dir)
        var = []
        for j, e in enumerate(fx.extractors):
            flags, regex = e.flags, e.regex
            if f["variant"] == "flags":
                flags = e.flags ^ _re.I
            elif f["variant"] == "one_regex" and j == 0:
                regex = e.regex.replace("U\\.S\\.", "U\\.Z\\.")
            var.append(TokenExtractor(regex, e.constructor, extra=e.extra, flags=flags, strings=list(e.strings)))
        if f["variant"] == "order":
            var = var[1:] + var[:1]
        t = fx.HT(extractors=var, cache_dir=cache_dir)
        t.hyperscan_db
        return True
    elif k == "concurrent_first_construction":
        shutil.rmtree(cache_dir, ignore_errors=True)
        os.makedirs(cache_dir)
        return True
    else:
        raise ValueError(k)
    with open(path, "wb") as fh:
        fh.write(new)
    return new != data


def construct(fx, cache_dir):
    WRITES["n"] = 0
    try:
        t = fx.HT(extractors=fx.extractors, cache_dir=cache_dir)
        got = fx.tokens(t)
    except BaseException as e:  # noqa
        if isinstance(e, (SystemExit,)):
            raise
        return dict(outcome="raise", exception=type(e).__name__, message=str(e)[:200])
    if got != fx.baseline:
        return dict(outcome="diff", got=got[:6], want=fx.baseline[:6], recompiled=WRITES["n"] > 0)
    return dict(outcome="ok", recompiled=WRITES["n"] > 0)


def concurrent(fx, cache_dir, n):
    """n interpreters construct the tokenizer at the same time on an empty
    cache directory (non-atomic write vs. concurrent readers)."""
    code = ("import json,sys\n"
            "from vmon.props import c14_worker as W\n"
            "import pathlib; pathlib.Path.write_bytes = W._counting_write_bytes\n"
            "from eyecite.tokenizers import EXTRACTORS, HyperscanTokenizer\n"
            "ex=[e for e in EXTRACTORS if 'U\\\\.S\\\\.' in e.regex][:6]+EXTRACTORS[-5:]\n"
            "t=HyperscanTokenizer(extractors=ex, cache_dir=sys.argv[1])\n"
            "print(json.dumps(W.Fixture.tokens(t), default=str))\n")
    procs = [subprocess.Popen([core.PY, "-c", code, cache_dir], env=core.child_env(), cwd=core.VERIF,
                              stdout=subprocess.PIPE, stderr=subprocess.PIPE) for _ in range(n)]
    bad = None
    want = json.loads(json.dumps(fx.baseline, default=str))
    for p in procs:
        try:
            out, err = p.communicate(timeout=300)
        except subprocess.TimeoutExpired:
            p.kill()
            bad = dict(outcome="raise", exception="Timeout", message="concurrent constructor hung")
            continue
        if p.returncode != 0:
            bad = dict(outcome="raise", exception="ChildFailed", message=err.decode("utf8", "replace")[-300:])
        elif json.loads(out.decode("utf8").strip().splitlines()[-1]) != want:
            bad = dict(outcome="diff", got=out.decode("utf8")[:300], want=None)
    return bad or dict(outcome="ok", recompiled=True)


def run_one(f, cache_dir, full, fx):
    pathlib.Path.write_bytes = _counting_write_bytes
    changed = apply_fault(f, fx, cache_dir)
    if f["kind"] == "concurrent_first_construction":
        first = concurrent(fx, cache_dir, f["n"])
    else:
        first = construct(fx, cache_dir)
    second = construct(fx, cache_dir)
    return dict(fault=f, changed=changed, first=first, second=second)


def full_fault_list(size, rng, shard, nshards, tier):
    out = [dict(kind="truncate", n=n) for n in (0, 1, 64, 4096, size // 2, size - 1)]
    out += [dict(kind="bitflip_header", pos=p, bit=b) for p, b in ((0, 0), (5, 1), (13, 7), (40, 3))]
    out += [dict(kind="byte_body", pos=rng.randrange(64, size), val=0) for _ in range(3)]
    out += [dict(kind="garbage", n=4096, seed=1), dict(kind="append", n=16, seed=2), dict(kind="empty"),
            dict(kind="version_field", pos=4, val=0), dict(kind="crash_during_write", n=size // 3)]
    if tier == "thorough":
        out += [dict(kind="truncate", n=rng.randrange(size)) for _ in range(20)]
        out += [dict(kind="byte_body", pos=rng.randrange(64, size), val=255) for _ in range(20)]
        out += [dict(kind="bitflip_header", pos=p, bit=p % 8) for p in range(0, 64, 3)]
    else:
        # quick: 2 recompiling faults per shard are affordable (11 s each)
        out = [out[j] for j in (0, 3, 5, 7, 10, 13, 15, 16)]
    return [f for j, f in enumerate(out) if j % nshards == shard]


def main(batch):
    import faulthandler
    import logging
    faulthandler.enable()
    logging.disable(logging.CRITICAL)
    core.assert_repo_under_test()
    req = json.load(open(batch))
    pathlib.Path.write_bytes = _counting_write_bytes
    from vmon.props import c14
    rng = random.Random(req["seed"])
    fx = Fixture(req["full"], req["cache_dir"], n_us=(1 if (req["tier"] == "thorough" and not req["full"] and req["shard"] % 2) else 6))
    if req["full"]:
        faults = full_fault_list(len(fx.pristine), rng, req["shard"], req["nshards"], req["tier"])
    else:
        small2 = (req["tier"] == "thorough" and req["shard"] % 2 == 1)
        faults = c14.fault_list(len(fx.pristine), rng, req["tier"], req["shard"], req["nshards"], small2=small2)
    mode = "a" if req["skip"] else "w"
    with open(req["journal"], mode) as j:
        for idx, f in enumerate(faults):
            if idx < req["skip"]:
                continue
            j.write(json.dumps(dict(event="start", index=idx, fault=f)) + "\n")
            j.flush()
            r = run_one(f, req["cache_dir"], req["full"], fx)
            r["event"] = "done"
            r["index"] = idx
            j.write(json.dumps(r, default=str) + "\n")
            j.flush()
    return 0


if __name__ == "__main__":
    sys.exit(main(sys.argv[1]))
