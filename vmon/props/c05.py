"""C05 Unambiguous references are grouped with the case they refer to.

Scenario model: the generator writes a running text and records, for every
written citation, its character span, kind and intended antecedent, while
maintaining the model's own 'last resolution'. Extraction + resolution of the
real code are then compared with the model."""
import itertools
import random

from vmon import gen

LEVEL = "exploration"
RULE = ("scenario documents: 1..4 distinct cases (synthetic, pairwise non-overlapping party names; "
        "reporter+volume colliding in ~40 %), any interleaving of full / short / supra / id. references and "
        "filler sentences, pin cites inside and outside the opinion window, lead-in signals; small scenarios "
        "(<= 2 cases, <= L events over {full,short,supra} x case + {id valid, id impossible}; L=4 quick, 5 "
        "thorough; colliding and distinct) are enumerated EXHAUSTIVELY, larger ones sampled; oracle = the "
        "generator's intended antecedent for every written reference; non-trivial = scenario with >= 1 "
        "non-full reference; distinct = distinct text")
ASSUMPTIONS = ["a scenario whose written citations are not all extracted at their written offsets is counted "
               "as 'extraction_mismatch' and not decided here (that is C01's claim); the floor bounds how "
               "many may be skipped",
               "opinion window for 'pin cite within the opinion' is read from eyecite.resolve.MAX_OPINION_PAGE_COUNT"]
FLOORS = {"quick": {"scenarios_decided": 3000, "ref:short": 1500, "ref:supra": 1500, "ref:id": 1500,
                    "colliding_scenarios": 500, "must_stay_unresolved_ids": 500, "exhaustive_small": 2588, "bare_short_forms": 300, "id_range_pins": 300, "accented_names": 300,
                    "cases_with_variant_spellings": 800, "db_string_scenarios": 1300, "supra_before_punctuation_cluster": 150, "hard_wrapped_full_citations": 150, "party_names_not_capitalised": 100, "long_prose_before_citation": 300, "nominative_reporter_party_names": 200},
          "thorough": {"scenarios_decided": 200000, "ref:short": 100000, "ref:supra": 100000, "ref:id": 100000,
                       "colliding_scenarios": 50000, "must_stay_unresolved_ids": 50000,
                       "exhaustive_small": 20956}}
EXHAUSTIVE = {"quick": False, "thorough": False}  # only the small-scenario sub-space is exhaustive
NS = {"quick": 500, "thorough": 20000}
SHARDS = {"quick": 8, "thorough": 14}
LSMALL = {"quick": 4, "thorough": 5}
REPS = ["U.S.", "F.2d", "F.3d", "A.2d", "N.E.2d", "P.2d", "S.W.2d", "Mass.", "Cal. 3d", "U. S.", "S. Ct.", "F. Supp. 2d"]
FILL = ["The argument fails.", "We disagree with that view.", "That is not the law.",
        "The point was conceded below.", "Nothing in the record suggests otherwise."]
LEAD = ["", "", "See ", "See also ", "Cf. ", "But see ", "Compare "]


def plan(tier, seed):
    n = SHARDS[tier]
    return [dict(i=i, nshards=n, n=NS[tier], seed=seed * 1000 + i, lsmall=LSMALL[tier]) for i in range(n)]


def classify(v):
    return None


ACCENT = {"A": "Á", "E": "É", "O": "Ö", "U": "Ü", "L": "Ł", "S": "Š", "Z": "Ž", "C": "Ç", "N": "Ñ"}


def accent(rng, w):
    """Party names are not ASCII-only in real opinions (Álvarez, Ünal, Peña)."""
    r = rng.random()
    if r > 0.92:
        return rng.choice(["O'", "D'", "Mc"]) + w          # O'Brien, D'Amato
    if r < 0.12 and w[0] in ACCENT:
        return ACCENT[w[0]] + w[1:]
    if r < 0.2 and "n" in w[1:]:
        i = w.index("n", 1)
        return w[:i] + "ñ" + w[i + 1:]
    return w


_GROUPS = None
NOMINATIVE_NAMES = ["Thompson", "Cooke", "Holmes", "Olcott", "Chase", "Gilmer", "Bee", "Deady", "Taney"]


def spelling_groups():
    """edition name -> every prose-safe spelling (edition name and variations) that the database relates
    to that edition and to nothing else, for editions citable in the standard 'vol R page' form."""
    global _GROUPS
    if _GROUPS is None:
        import re
        rel = gen.DB.related
        safe = lambda x: bool(re.fullmatch(r"[A-Za-z0-9 .&'()\-]+", x)) and not x.endswith(" at")  # noqa
        g = {}
        for en, v in gen.DB.pairs:     # editions citable as 'vol R page' (possibly among other templates)
            if safe(en) and safe(v) and len(rel.get(en, ())) == 1 and rel.get(v) == rel.get(en):
                g.setdefault(en, [en])
                if v not in g[en]:
                    g[en].append(v)
        _GROUPS = {k: v for k, v in sorted(g.items()) if len(v) >= 2}
    return _GROUPS


_PLAIN_OK = {}


def plain_shape_only(rep):
    """Precondition on a spelling: no second citation pattern with another group structure (nominative
    'Tenn. (Cooke)' style, short-form twin, custom template) matches 'vol REP page' as a whole - the
    same tie rule as in C01; decided on the patterns, not by running the extraction."""
    if rep not in _PLAIN_OK:
        from vmon.props.c01 import inner_of
        ok = True
        for core, want in ((f"12 {rep} 34", ("12", rep, "34")),):
            for o in gen.DB.cit_extractors:
                if o.strings and not any(x in core for x in o.strings):
                    continue
                rx = inner_of(o)[1]
                m = rx.fullmatch(core) if rx is not None else None
                if m and ((m.groupdict().get("volume"), m.groupdict().get("reporter"), m.groupdict().get("page")) != want
                          or set(m.groupdict()) != {"volume", "reporter", "page"} or o.extra["short"]):
                    ok = False
                    break
        _PLAIN_OK[rep] = ok
    return _PLAIN_OK[rep]


def canon(rep):
    rel = gen.DB.related.get(rep)
    if rel and len(rel) == 1:
        return next(iter(rel))[2]
    return rep.replace(" ", "")


def make_cases(rng, k, collide=None):
    used, cases = [], []
    for i in range(k):
        def fresh():
            # pairwise non-overlapping *as written* (the accented spelling is what counts)
            while True:
                w = accent(rng, gen.word(rng, used, 3))
                if not any(w.lower() in u.lower() or u.lower() in w.lower() for u in used):
                    return w
        P = fresh(); used.append(P)
        if rng.random() < 0.06:
            # company-style names that do not begin with a capital letter
            P = rng.choice([x for x in ("eBay", "iRobot", "amazon.com", "e.Digital", "deVries", "iPayment") if x not in used] or [P])
            used[-1] = P
        D = fresh()
        if rng.random() < 0.1 and not any(n in used for n in NOMINATIVE_NAMES):
            # a party whose name is also the name of a nominative reporter ('Shapiro v. Thompson, 394 U.S. 618')
            D = rng.choice(NOMINATIVE_NAMES)
        used.append(D)
        forced_page = None
        spell = None
        SERIES = {"F.2d": "F.3d", "F.3d": "F.2d", "A.2d": "A.3d", "N.E.2d": "N.E.3d", "P.2d": "P.3d", "S.W.2d": "S.W.3d",
                  "Cal. 3d": "Cal. 4th", "F. Supp. 2d": "F. Supp. 3d"}
        if cases and collide is None and rng.random() < 0.15 and cases[-1]["rep"] in SERIES:
            # another series of the same reporter family with the same volume (and sometimes page):
            # distinct documents that only differ in the edition
            rep, vol = SERIES[cases[-1]["rep"]], cases[-1]["vol"]
            forced_page = cases[-1]["page"] if rng.random() < 0.5 else None
        elif cases and (collide if collide is not None else rng.random() < 0.4):
            rep, vol = cases[-1]["rep"], cases[-1]["vol"]
            spell = cases[-1]["spell"]
        else:
            while True:
                rep, vol = rng.choice(REPS), rng.randint(1, 500)
                spell = None
                if rng.random() < 0.3:
                    # any reporter of the database, each citation of the case free to use any spelling that
                    # the database relates to this edition only
                    G = spelling_groups()
                    rep = rng.choice(sorted(G))
                    spell = [x for x in G[rep] if plain_shape_only(x)]
                    if rep not in spell or len(spell) < 2:
                        rep, spell = rng.choice(REPS), None
                if not any(canon(c["rep"]) == canon(rep) and c["vol"] == vol for c in cases):
                    break
        page = forced_page or rng.randint(1, 900)
        # distinct cases must be distinct documents: 'U. S.' is a spelling of 'U.S.', so compare the
        # reporter without blanks (two cases with equal normalised reporter, volume and page are one case)
        nrep = canon
        while any(nrep(c["rep"]) == nrep(rep) and c["vol"] == vol and abs(c["page"] - page) < 1 for c in cases):
            page += 1
        cases.append(dict(P=P, D=D, rep=rep, vol=vol, page=page, cited=False, spell=spell or [rep]))
    return cases


class Scenario:
    def __init__(self, rng, cases, maxp):
        self.rng, self.cases, self.maxp = rng, cases, maxp
        self.text = ""
        self.refs = []   # (start, kind, case index, expected case or None)
        self.last = None

    def sep(self):
        r = self.rng
        if r.random() < 0.06:
            # several hundred characters of ordinary prose (no special token in it) before the next citation:
            # longer than the look-back window of the metadata scans
            self.text += ". " + gen.filler(r, r.randint(280, 460)).capitalize() + ". "
            self.long_fill = getattr(self, "long_fill", 0) + 1
            return
        self.text += r.choice([". ", "; ", ". " + r.choice(FILL) + " ", ". "])

    def full(self, i):
        c, r = self.cases[i], self.rng
        lead = r.choice(LEAD)
        core = f"{c['vol']} {r.choice(c['spell'])} {c['page']}"
        s = f"{lead}{c['P']} v. {c['D']}, "
        if r.random() < 0.08:
            # hard-wrapped text: a line break instead of one of the blanks between the party names and the citation
            k = r.choice([i for i, ch in enumerate(s) if ch == " " and i >= len(lead)])
            s = s[:k] + "\n" + s[k + 1:]
            self.wrapped = getattr(self, "wrapped", 0) + 1
        st = len(self.text) + len(s)
        s += core
        if r.random() < 0.3:
            s += f", {c['page'] + r.randint(0, 20)}"
        s += f" ({r.choice(['', '2d Cir. ', 'Pa. '])}{r.randint(1950, 2020)})"
        self.text += s
        self.refs.append((st, "full", i, i))
        c["cited"] = True
        self.last = i
        self.sep()

    def short(self, i):
        c, r = self.cases[i], self.rng
        name = r.choice([c["P"], c["D"]])
        s = f"{r.choice(LEAD)}{name}, "
        st = len(self.text) + len(s)
        s += f"{c['vol']} {r.choice(c['spell'])}{r.choice(['', ','])} at {c['page'] + r.randint(0, 30)}"
        self.text += s
        self.refs.append((st, "short", i, i))
        self.last = i
        self.sep()

    def bare_short(self, i):
        """Short form without a party name: unambiguous only through its unique reporter and volume."""
        c, r = self.cases[i], self.rng
        self.text += r.choice(FILL) + " "
        s = r.choice(["", "See "])
        st = len(self.text) + len(s)
        s += f"{c['vol']} {r.choice(c['spell'])}{r.choice(['', ','])} at {c['page'] + r.randint(0, 30)}"
        self.text += s
        self.refs.append((st, "short", i, i))
        self.bare = getattr(self, "bare", 0) + 1
        self.last = i
        self.sep()

    def unique_rv(self, i):
        c = self.cases[i]
        return not any(j != i and d["cited"] and canon(d["rep"]) == canon(c["rep"]) and d["vol"] == c["vol"]
                       for j, d in enumerate(self.cases))

    def supra(self, i):
        c, r = self.cases[i], self.rng
        name = r.choice([c["P"], c["D"]])
        s = f"{r.choice(LEAD)}{name}, "
        st = len(self.text) + len(s)
        s += "supra" + r.choice([f", at {c['page'] + r.randint(0, 30)}", "", f" at {c['page'] + 1}"])
        if s.endswith("supra") and r.random() < 0.3:
            # the reference closes a parenthesis or a quotation: two or more punctuation marks right after it
            s += r.choice([".)", ").", ".\"", ",\u201d", ".\u201d)", "));"])
            self.supra_clusters = getattr(self, "supra_clusters", 0) + 1
        self.text += s
        self.refs.append((st, "supra", i, i))
        self.last = i
        self.sep()

    def idc(self, valid):
        r = self.rng
        if self.last is not None:
            c = self.cases[self.last]
            if valid:
                form = r.random()
                if form < 0.45:
                    pin = c["page"] + r.randint(0, self.maxp)
                    s = f"Id. at {pin}"
                elif form < 0.7:
                    # ranges and lists, incl. the abbreviated range '140-45'
                    pin = c["page"] + r.randint(0, self.maxp - 10)
                    hi = pin + r.randint(1, 9)
                    short_hi = str(hi)[-2:] if (len(str(hi)) > 2 and str(hi)[:-2] == str(pin)[:-2] and int(str(hi)[-2:]) > int(str(pin)[-2:])) else str(hi)
                    s = r.choice([f"Id. at {pin}-{hi}", f"Id. at {pin}-{short_hi}", f"Id., at {pin}, {hi}",
                                  f"Id. at {pin} n.{r.randint(1, 9)}", f"Id. at {pin}-{hi}, {hi + 2}"])
                    self.range_pins = getattr(self, "range_pins", 0) + 1
                elif form < 0.85:
                    s = "Id."
                else:
                    s = "Ibid."
                exp = self.last
            else:
                if r.random() < 0.5:
                    pin = c["page"] + self.maxp + r.randint(1, 400)
                else:
                    pin = c["page"] - r.randint(1, c["page"]) if c["page"] > 1 else c["page"] + self.maxp + 1
                    if pin >= c["page"]:
                        pin = c["page"] + self.maxp + 1
                s = f"Id. at {pin}"
                exp = None
        else:
            s = f"Id. at {r.randint(1, 900)}" if r.random() < 0.7 else "Id."
            exp = None
        st = len(self.text)
        self.text += s
        self.refs.append((st, "id", self.last, exp))
        self.last = exp
        if s.endswith("."):
            # two matches of the id. pattern must not be a single character
            # apart (the boundary character is consumed): always add a sentence
            self.text += " " + r.choice(FILL) + " "
        else:
            self.sep()

    def filler(self):
        self.text += self.rng.choice(FILL) + " "


def random_scenario(rng, maxp):
    k = rng.randint(1, 4)
    cases = make_cases(rng, k)
    sc = Scenario(rng, cases, maxp)
    pending = list(range(k))
    rng.shuffle(pending)
    for _ in range(rng.randint(k, k + 9)):
        cited = [i for i, c in enumerate(cases) if c["cited"]]
        r = rng.random()
        if pending and (not cited or r < 0.3):
            sc.full(pending.pop())
        elif cited and r < 0.36:
            sc.full(rng.choice(cited))      # repeated full citation of the same case
        elif cited and r < 0.42:
            i = rng.choice(cited)
            if sc.unique_rv(i):
                sc.bare_short(i)
            else:
                sc.short(i)
        elif cited and r < 0.52:
            sc.short(rng.choice(cited))
        elif cited and r < 0.68:
            sc.supra(rng.choice(cited))
        elif r < 0.9:
            sc.idc(rng.random() < 0.65)
        else:
            sc.filler()
    return sc


SMALL_ALPHABET = ["F0", "F1", "S0", "S1", "B0", "B1", "U0", "U1", "IV", "II"]


def small_scenarios(lmax, shard, nshards):
    n = 0
    for collide in (False, True):
        for length in range(1, lmax + 1):
            for combo in itertools.product(SMALL_ALPHABET, repeat=length):
                cited = set()
                ok = True
                for e in combo:
                    if e[0] == "F":
                        cited.add(e[1])
                    elif e[0] in "SUB" and e[1] not in cited:
                        ok = False
                        break
                if not ok:
                    continue
                if n % nshards == shard:
                    yield collide, combo
                n += 1


def build_small(rng, collide, combo, maxp):
    cases = make_cases(rng, 2, collide=collide)
    sc = Scenario(rng, cases, maxp)
    for e in combo:
        if e[0] == "F":
            sc.full(int(e[1]))
        elif e[0] == "S":
            sc.short(int(e[1]))
        elif e[0] == "U":
            sc.supra(int(e[1]))
        elif e[0] == "B":
            # a bare short form is only unambiguous with a unique reporter+volume; otherwise write the named form
            (sc.bare_short if sc.unique_rv(int(e[1])) else sc.short)(int(e[1]))
        elif e == "IV":
            sc.idc(True)
        else:
            sc.idc(False)
    return sc


def judge(sc, rec, case):
    from eyecite import get_citations, resolve_citations
    from eyecite.models import ReferenceCitation

    text, refs, cases = sc.text, sc.refs, sc.cases
    try:
        cs = get_citations(text)
        res = resolve_citations(cs)
    except Exception as e:
        rec.count("raised:" + type(e).__name__)
        return
    rec.ev()
    cs2 = [c for c in cs if not isinstance(c, ReferenceCitation)]
    bystart = {c.span()[0]: c for c in cs2}
    kinds = {"full": "FullCaseCitation", "short": "ShortCaseCitation", "supra": "SupraCitation", "id": "IdCitation"}
    if len(cs2) != len(refs) or any(r[0] not in bystart or type(bystart[r[0]]).__name__ != kinds[r[1]] for r in refs) \
            or len(cs) != len(cs2):
        rec.count("extraction_mismatch")
        if rec.counters.get("extraction_mismatch", 0) <= 3:
            rec.note("extraction mismatch: " + repr(text)[:300] + " written=" + repr([(r[0], r[1]) for r in refs])
                     + " got=" + repr([(c.span(), type(c).__name__) for c in cs]))
        return
    rec.count("scenarios_decided")
    rec.count("bare_short_forms", getattr(sc, "bare", 0))
    rec.count("id_range_pins", getattr(sc, "range_pins", 0))
    rec.count("cases_with_variant_spellings", sum(1 for c in cases if c["cited"] and len(c["spell"]) > 1))
    rec.count("nominative_reporter_party_names", sum(1 for c in cases if c["cited"] and c["D"] in NOMINATIVE_NAMES))
    rec.count("long_prose_before_citation", getattr(sc, "long_fill", 0))
    rec.count("hard_wrapped_full_citations", getattr(sc, "wrapped", 0))
    rec.count("supra_before_punctuation_cluster", getattr(sc, "supra_clusters", 0))
    rec.count("party_names_not_capitalised", sum(1 for c in cases if c["cited"] and not c["P"][:1].isupper()))
    rec.count("accented_names", sum(1 for c in cases for n in (c["P"], c["D"]) if not n.isascii()))
    if len({(canon(c["rep"]), c["vol"]) for c in cases if c["cited"]}) < sum(1 for c in cases if c["cited"]):
        rec.count("colliding_scenarios")
    if any(r[1] != "full" for r in refs):
        rec.nontrivial(text)
    group = {}
    for rsrc, lst in res.items():
        for c in lst:
            group[id(c)] = rsrc
    fullres = {}
    for st, kind, ci, exp in refs:
        if kind == "full":
            g = group.get(id(bystart[st]))
            if g is None:
                rec.violation("C05.full_unresolved", case, observed=dict(text=text, at=st))
            elif ci in fullres and not (fullres[ci] == g):
                rec.violation("C05.same_case_two_resources", case, observed=dict(text=text, at=st))
            fullres.setdefault(ci, g)
    ncited = sum(1 for c in cases if c["cited"])
    if len(res) != ncited:
        rec.violation("C05.resource_count", case, observed=dict(text=text, resources=len(res)), expected=ncited)
    for st, kind, ci, exp in refs:
        if kind == "full":
            continue
        rec.count("ref:" + kind)
        g = group.get(id(bystart[st]))
        frag = text[st:st + 40]
        if exp is None:
            rec.count("must_stay_unresolved_ids")
            if g is not None:
                rec.violation("C05.should_be_unresolved_" + kind, case, observed=dict(text=text, at=st, frag=frag))
        elif g is None:
            rec.violation("C05.unresolved_" + kind, case, observed=dict(text=text, at=st, frag=frag))
        elif not (g == fullres.get(exp)):
            rec.violation("C05.wrong_group_" + kind, case, observed=dict(text=text, at=st, frag=frag))


def db_mini(rep, spell, tag, maxp):
    """One case cited in full, then by short form, id. and supra - for one reporter string of the database."""
    r = random.Random(tag)
    used = []
    P = gen.word(r, used, 3); used.append(P)
    D = gen.word(r, used, 3)
    case = dict(P=P, D=D, rep=rep, vol=r.randint(1, 300), page=r.randint(1, 900), cited=False, spell=spell)
    sc = Scenario(r, [case], maxp)
    sc.full(0)
    sc.short(0)
    sc.idc(True)
    sc.supra(0)
    return sc


def db_strings():
    G = spelling_groups()
    out = [(en, sp) for en, sp in sorted(G.items())]
    grouped = {x for _, sp in out for x in sp}
    out += [(x, [x]) for x in gen.DB.std if x not in grouped]
    return out


def run_shard(spec, rec):
    import eyecite.resolve as ER
    maxp = ER.MAX_OPINION_PAGE_COUNT
    rng = random.Random(spec["seed"])
    # every standard-form reporter string of the database (with the other spellings of its edition where
    # the database has unambiguous ones) in one fixed mini scenario
    for n, (rep, spell) in enumerate(db_strings()):
        if n % spec["nshards"] != spec["i"]:
            continue
        spell = [x for x in spell if plain_shape_only(x)]
        if rep not in spell:
            rec.count("db_string_with_second_pattern_skipped")
            continue
        tag = f"{spec['seed']}-db-{n}"
        judge(db_mini(rep, spell, tag, maxp), rec, dict(db_string=rep, spell=spell, rng=tag))
        rec.count("db_string_scenarios")
    for collide, combo in small_scenarios(spec["lsmall"], spec["i"], spec["nshards"]):
        srng = random.Random(f"{spec['seed']}-{collide}-{combo}")
        sc = build_small(srng, collide, combo, maxp)
        judge(sc, rec, dict(small=[collide, list(combo)], rng=f"{spec['seed']}-{collide}-{combo}"))
        rec.count("exhaustive_small")
    for k in range(spec["n"]):
        s = f"{spec['seed']}-{k}"
        sc = random_scenario(random.Random(s), maxp)
        judge(sc, rec, dict(random=s))
        if len(rec.samples) < 3:
            rec.sample(dict(text=sc.text, written=[(r[0], r[1], r[2], r[3]) for r in sc.refs]))


def replay(w, rec):
    import eyecite.resolve as ER
    maxp = ER.MAX_OPINION_PAGE_COUNT
    c = w["case"]
    if "small" in c:
        sc = build_small(random.Random(c["rng"]), c["small"][0], tuple(c["small"][1]), maxp)
    elif "db_string" in c:
        sc = db_mini(c["db_string"], c["spell"], c["rng"], maxp)
    else:
        sc = random_scenario(random.Random(c["random"]), maxp)
    judge(sc, rec, c)
