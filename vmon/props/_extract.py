"""Shared driver: citation-dense adversarial documents through
eyecite.get_citations in plain and markup mode with the three shipped
tokenizers. Property modules supply the oracle."""
import random

from vmon import gen, instrument, tok

TOKNAMES = {"AhocorasickTokenizer": "ac", "HyperscanTokenizer": "hs", "Tokenizer": "ref"}


def documents(spec, rec, extra=None):
    """Yield (text, markup, steps). extra: optional callable(rng, rec) -> text
    giving property-specific documents mixed in at 30 %."""
    rng = random.Random(spec["seed"])
    n = spec["n"]
    corpus = gen.test_corpus() if spec.get("corpus") else []
    for s in corpus:
        yield s, None, None
    for k in range(n):
        r = rng.random()
        if r < spec.get("markup_share", 0.15):
            yield None, gen.markup_doc(rng), rng.choice(gen.MARKUP_STEPS)
        elif extra is not None and r < 0.45:
            yield extra(rng, rec), None, None
        elif corpus and r < 0.55:
            yield gen.mutate(rng.choice(corpus), rng, rec=rec), None, None
        else:
            yield gen.dense_doc(rng, rec=rec), None, None


def drive(spec, rec, on_result, extra=None, tokenizers=("ac", "hs", "ref"), ref_every=8):
    from eyecite import clean_text, get_citations

    toks = {n: tok.get(n) for n in tokenizers}
    k = 0
    for text, markup, steps in documents(spec, rec, extra):
        k += 1
        for name in tokenizers:
            if name == "ref" and k % ref_every:
                continue
            T = toks[name]
            instrument.CONTEXT = dict(text=text, markup=markup, steps=steps, tokenizer=name)
            try:
                if markup is not None:
                    cs = get_citations(markup_text=markup, clean_steps=steps, tokenizer=T)
                    cleaned = clean_text(markup, steps)
                else:
                    cs = get_citations(text, tokenizer=T)
                    cleaned = text
            except Exception as e:
                rec.count("get_citations_raised:" + type(e).__name__)
                continue
            rec.ev()
            rec.count("calls:" + name)
            rec.count("calls:" + ("markup" if markup is not None else "plain"))
            rec.count("citations", len(cs))
            for c in cs:
                rec.count("kind:" + type(c).__name__)
            cfg = dict(text=text, markup=markup, steps=steps, tokenizer=name)
            if cs:
                rec.nontrivial([name, text, markup, steps])
            on_result(cleaned, cs, cfg)


def rerun(case, tokenizer=None):
    """Replay helper: returns (cleaned_text, citations)."""
    from eyecite import clean_text, get_citations

    T = tok.get(TOKNAMES.get(case.get("tokenizer"), case.get("tokenizer") or "ac"))
    if case.get("markup") is not None:
        cs = get_citations(markup_text=case["markup"], clean_steps=case["steps"], tokenizer=T)
        return clean_text(case["markup"], case["steps"]), cs
    return case["text"], get_citations(case["text"], tokenizer=T)


def suite_under_contracts(rec, keep_prefix):
    """W5: run the repository's own test-suite in this process with the universal contracts installed on
    the real functions; only violations of monitors starting with `keep_prefix` are kept by the caller's
    property. Test failures themselves are not judged here (the baseline does that)."""
    import os
    import pytest
    from vmon import core, instrument

    class Filter:
        def __init__(self, rec):
            self.rec = rec

        def count(self, k, n=1):
            self.rec.count(k, n)

        def violation(self, mon, case, **kw):
            if mon.startswith(keep_prefix):
                self.rec.violation(mon, case, **kw)

    instrument.install(Filter(rec), what=("tokenize", "get_citations", "filter_citations"))
    instrument.SINK = Filter(rec)
    before = dict(instrument.EVALS)
    rc = pytest.main(["-q", "-p", "no:cacheprovider", "-x", "--no-header", "-W", "ignore",
                      os.path.join(core.REPO, "tests")])
    rec.count("suite_under_contracts_runs")
    rec.count("suite_exit_code_%s" % int(rc))
    n = sum(instrument.EVALS.values()) - sum(before.values())
    rec.count("suite_contract_evaluations", n)
    rec.ev(max(n, 0))
    instrument.SINK = rec
