"""C18 Year and edition guesses are sound; disambiguation only removes."""
import random

from vmon import gen, instrument, tok
from vmon import monitors as M
from vmon.props import _extract

LEVEL = "exploration"
RULE = ("reporter strings drawn from the whole reporters-db and bucketed by number of candidate "
        "editions (1 / several), combined with years at every boundary (1599, 1600, each candidate "
        "edition's start-1/start/end/end+1, this year, +1, +2) in every position (after the citation, "
        "with court, bracketed, California-style before, range 1993-94, none, parallel), plus dense "
        "hostile documents; oracle = independent range check, int(text year[:4]) == year, guess in "
        "candidates, single candidate => guess, several => year required and (own year) unique "
        "year-compatible candidate, and get_citations(remove_ambiguous=True) == default run filtered; "
        "non-trivial = at least one resource citation; distinct = distinct input")
ASSUMPTIONS = ["Edition.includes_year is re-implemented independently in the monitor",
               "'today' is read once per process by both eyecite and the monitor"]
FLOORS = {
    "quick": {"resource_citations": 8000, "years_checked": 4000, "guess_multi": 300, "ambiguous_left": 300,
              "remove_ambiguous_compared": 2000, "remove_ambiguous_dropped": 300,
              "pos:after": 200, "pos:court": 200, "pos:before": 200, "pos:bracket": 200, "pos:range": 200,
              "pos:none": 100, "pos:inside_citation": 50, "pos:journal_or_statute": 80, "pos:after_reference": 80, "pos:parallel": 120, "pos:same_citation_with_and_without_year": 80, "year_boundary:low": 100, "year_boundary:high": 100,
              "year_rejected": 200, "db_strings_checked": 800},
    "thorough": {"resource_citations": 500000, "guess_multi": 20000, "ambiguous_left": 20000,
                 "remove_ambiguous_compared": 100000, "year_rejected": 10000},
}
N = {"quick": 450, "thorough": 25000}
SHARDS = {"quick": 8, "thorough": 14}
PROBES = ["Foo v. Bar (2100) 1 U.S. 1", "Foo v. Bar (1599) 1 U.S. 1", "Foo v. Bar, 1 U.S. 1 (1599)",
          "Foo v. Bar, 1 U.S. 1 (%d)" % (gen.YEARNOW + 1), "Foo v. Bar, 1 U.S. 1 (%d)" % (gen.YEARNOW + 2)]


def plan(tier, seed):
    specs = [dict(i=i, n=N[tier], seed=seed * 1000 + i, corpus=(i == 0), probes=(i == 0), markup_share=0.05)
            for i in range(SHARDS[tier])]
    if tier == "thorough":
        specs.append(dict(i=99, suite=True, n=0, seed=seed))
    return specs


def prepare(tier, seed, workdir):
    tok.prebuild_hs()


def classify(v):
    return None


def years_for(k, rng):
    from eyecite.tokenizers import EDITIONS_LOOKUP
    now = gen.YEARNOW
    ys = [1599, 1600, 1601, now - 1, now, now + 1, now + 2, 1850, 1950, 1999]
    for e in EDITIONS_LOOKUP[k]:
        for d in (e.start, e.end):
            if d:
                ys += [d.year - 1, d.year, d.year + 1]
    return rng.choice(ys)


def year_doc(rng, rec):
    parts = []
    for _ in range(rng.randint(1, 3)):
        k = rng.choice(gen.DB.multi) if rng.random() < 0.6 else rng.choice(gen.DB.std)
        y = years_for(k, rng)
        if y <= 1600:
            rec.count("year_boundary:low")
        if y >= gen.YEARNOW:
            rec.count("year_boundary:high")
        v, p = rng.randint(1, 300), rng.randint(1, 900)
        P, D = gen.word(rng), gen.word(rng)
        form = rng.random()
        if form < 0.05:
            # journals and statutes take their year through other code than cases
            from reporters_db import LAWS
            if rng.random() < 0.6:
                s = f"{v} {rng.choice(gen.DB.journals)} {p}" + rng.choice(["", f", {p + 2}"]) + f" ({y})"
            else:
                s = f"{rng.choice(sorted(LAWS))} § {p} ({rng.choice(['', 'West ', 'Supp. '])}{y})"
            rec.count("pos:journal_or_statute")
        elif form < 0.1:
            # the year is part of the citation itself ('14 How. Pr. (1857) 10'), with or without a pin cite and
            # a year parenthesis after it
            s = f"{P} v. {D}, {gen.year_group_member(rng)}" + rng.choice(["", ", 5", f", 5 ({y})", f" ({y})", ", 5-6, 9"])
            rec.count("pos:inside_citation")
        elif form < 0.25:
            s = f"{P} v. {D}, {v} {k} {p} ({y})"
            rec.count("pos:after")
        elif form < 0.4:
            s = f"{P} v. {D}, {v} {k} {p} ({rng.choice(['4th Cir.', 'Pa.', 'D. Mass.', 'Cal. Ct. App.'])} {y})"
            rec.count("pos:court")
        elif form < 0.55:
            s = f"{P} v. {D} ({y}) {v} {k} {p}"
            rec.count("pos:before")
        elif form < 0.65:
            s = f"{P} v {D} ({v} {k} {p} [{y}])"
            rec.count("pos:bracket")
        elif form < 0.75:
            s = f"{P} v. {D}, {v} {k} {p} ({y}-{(y + 1) % 100:02d})"
            rec.count("pos:range")
        elif form < 0.8:
            s = f"{v} {k} {p}" if rng.random() < 0.5 else f"{P}, {v} {k} at {p}"
            rec.count("pos:none")
        elif form < 0.85:
            # a name + pin-cite reference that runs into a (possibly ambiguous) citation
            s = f"{P} v. {D}, 1 U.S. 1 (1990). Later {rng.choice([P, D])} at {rng.randint(1, 900)}, {v} {k} {p}"
            rec.count("pos:after_reference")
        elif form < 0.9:
            # the same volume, reporter and page twice in one document: once with a year (which may settle the
            # edition) and once without - equal citations, different guesses
            s = f"{P} v. {D}, {v} {k} {p} ({y}). Later, {rng.choice([P, D])}'s case, {v} {k} {p}, was followed"
            rec.count("pos:same_citation_with_and_without_year")
        else:
            k2 = rng.choice(gen.DB.multi) if rng.random() < 0.5 else rng.choice(gen.DB.std)
            s = f"{P} v. {D}, {v} {k} {p}, {v + 1} {k2} {p + 1} ({y})"
            rec.count("pos:parallel")
        parts.append(s)
    return rng.choice([". Then ", "; ", ". "]).join(parts) + "."


def ser_list(cs):
    return [M.ser(c) for c in cs]


def on_result_factory(rec):
    from eyecite.models import ResourceCitation

    def on_result(text, cs, cfg):
        nres = 0
        for c in cs:
            if isinstance(c, ResourceCitation):
                nres += 1
                if c.year is not None:
                    rec.count("years_checked")
                elif c.metadata.year:
                    rec.count("year_rejected")
                cand = set(c.exact_editions) or set(c.variation_editions)
                if len(cand) > 1:
                    rec.count("guess_multi" if c.edition_guess else "ambiguous_left")
        rec.count("resource_citations", nres)
        for mon, obs in M.year_edition(cs):
            rec.violation(mon, cfg, observed=obs)
        if len(rec.samples) < 3 and nres >= 2:
            rec.sample(dict(cfg, result=[(M.kind(c), c.matched_text(), getattr(c, "year", None), c.metadata.__dict__.get("year"),
                                          getattr(getattr(c, "edition_guess", None), "short_name", None)) for c in cs][:6]))
        # disambiguation only removes
        if cfg.get("tokenizer") in ("ac", "hs") and nres:
            from eyecite import get_citations
            T = tok.get(cfg["tokenizer"])
            try:
                if cfg.get("markup") is not None:
                    amb = get_citations(markup_text=cfg["markup"], clean_steps=cfg["steps"], tokenizer=T, remove_ambiguous=True)
                else:
                    amb = get_citations(cfg["text"], tokenizer=T, remove_ambiguous=True)
            except Exception as e:
                rec.count("get_citations_raised:" + type(e).__name__)
                return
            rec.count("remove_ambiguous_compared")
            want = [c for c in cs if not isinstance(c, ResourceCitation) or c.edition_guess]
            rec.count("remove_ambiguous_dropped", len(cs) - len(want))
            a, b = ser_list(amb), ser_list(want)
            if a != b:
                rec.violation("C18.remove_ambiguous", cfg,
                              observed=[(x["kind"], x["span"], x.get("guess")) for x in a][:20],
                              expected=[(x["kind"], x["span"], x.get("guess")) for x in b][:20])
    return on_result


def run_shard(spec, rec):
    if spec.get("suite"):
        return _extract.suite_under_contracts(rec, "C18.")
    instrument.install(rec, what=())
    on_result = on_result_factory(rec)
    if spec.get("probes"):
        from eyecite import get_citations
        for p in PROBES:
            rec.ev()
            on_result(p, get_citations(p), dict(text=p, markup=None, steps=None, tokenizer="ac"))
    # every journal key of the database and every multi-edition reporter string in minimal form (sharded)
    from eyecite import get_citations
    keys = gen.DB.journals + gen.DB.multi
    for n, k in enumerate(keys):
        if n % SHARDS.get(spec.get("tier", "quick"), 8) != spec["i"] % SHARDS.get(spec.get("tier", "quick"), 8):
            continue
        t = f"See {1 + n % 9} {k} {1 + n % 7}{' (1990)' if n % 2 else ''}."
        try:
            cs = get_citations(t)
        except Exception:
            continue
        rec.ev()
        rec.count("db_strings_checked")
        on_result(t, cs, dict(text=t, markup=None, steps=None, tokenizer="ac"))
    _extract.drive(spec, rec, on_result, extra=year_doc, ref_every=16)


def replay(w, rec):
    text, cs = _extract.rerun(w["case"])
    on_result_factory(rec)(text, cs, w["case"])
