"""C11 'skip' and 'wrap' modes keep well-formed markup well-formed."""
import random
import re

from vmon import gen, instrument
from vmon.props import _annot as A

LEVEL = "exploration"
RULE = ("well-formed element trees (nested i/em/b/span and p/div, depth <= 3, text alphabet disjoint from "
        "tag-name characters so the alignment is forced), plain = text content, span sets over the text "
        "content (disjoint, touching, overlapping, crossing element boundaries), annotations are balanced "
        "<a id=k>...</a> pairs; modes skip and wrap; judge = lxml etree.fromstring('<div>'+out+'</div>'), "
        "itertext() == plain, wrap: every non-empty non-overlapping annotation present, skip: emitted "
        "annotations balanced (implied by well-formedness); plus marked-up legal documents with spans from "
        "get_citations; non-trivial = tree with >= 1 span crossing an element boundary; distinct = "
        "distinct (source, spans)")
ASSUMPTIONS = ["lxml is the well-formedness judge", "entities are not generated in trees (text alphabet is plain ASCII)"]
FLOORS = {"quick": {"trees": 3000, "crossing_spans:skip": 1000, "crossing_spans:wrap": 1000,
                    "skip_omitted": 200, "skip_emitted": 1000, "wrap_emitted": 2000, "touching_sets": 300,
                    "legal_docs": 200, "same_plain_other_markup": 300},
          "thorough": {"trees": 200000, "crossing_spans:skip": 60000, "crossing_spans:wrap": 60000,
                       "legal_docs": 10000}}
N = {"quick": 900, "thorough": 40000}
SHARDS = {"quick": 8, "thorough": 14}
PROBES = [("<i>Id. at 3; id.</i> at 5", [(0, 8), (10, 18)]), ("A<b>B</b>C", [(1, 1)]), ("A<b>B</b>C", [(0, 2), (2, 3)])]


def plan(tier, seed):
    return [dict(i=i, n=N[tier], seed=seed * 1000 + i, probes=(i == 0)) for i in range(SHARDS[tier])]


def classify(v):
    return None


def judge(src, plain, spans, rec, tag):
    from eyecite import annotate_citations
    from lxml import etree

    anns = A.annotations(spans, style="a")
    # does a span cross an element boundary? (its source image contains a tag)
    for mode in ("skip", "wrap"):
        case = dict(source=src, plain=plain, spans=spans, mode=mode)
        try:
            out = annotate_citations(plain, anns, source_text=src, unbalanced_tags=mode)
        except Exception as e:
            rec.violation(f"C11.raised.{type(e).__name__}", case, observed=str(e)[:200])
            continue
        rec.ev()
        try:
            tree = etree.fromstring(f"<div>{out}</div>")
        except etree.XMLSyntaxError as e:
            rec.violation(f"C11.illformed_{mode}", case, observed=dict(out=out[:500], error=str(e)[:120]))
            continue
        tc = "".join(tree.itertext())
        if tc != plain:
            rec.violation(f"C11.text_changed_{mode}", case, observed=tc[:300], expected=plain[:300])
        ids = [el.get("id") for el in tree.iter("a")]
        order = sorted(range(len(spans)), key=lambda i: (spans[i], anns[i][1], anns[i][2]))
        max_end = 0
        for i in order:
            a, b = spans[i]
            clean = a < b and a >= max_end
            max_end = max(max_end, b)
            if not clean:
                continue
            present = str(i) in ids
            if mode == "wrap":
                rec.count("wrap_emitted" if present else "wrap_missing")
                if not present:
                    rec.violation("C11.wrap_missing_annotation", case, observed=dict(out=out[:500], missing=i))
            else:
                rec.count("skip_emitted" if present else "skip_omitted")
        rec.count(f"checked:{mode}")


def crossing(src, plain, spans, pos):
    n = 0
    for a, b in spans:
        if a < b and re.search(r"<", src[pos[a]:pos[b - 1] + 1]):
            n += 1
    return n


def positions(src):
    """index in src of every text character (tags removed)."""
    pos, intag = [], False
    for i, ch in enumerate(src):
        if ch == "<":
            intag = True
        elif ch == ">":
            intag = False
        elif not intag:
            pos.append(i)
    return pos


def run_shard(spec, rec):
    instrument.install(rec, what=())
    rng = random.Random(spec["seed"])
    if spec.get("probes"):
        for src, sp in PROBES:
            judge(src, re.sub(r"<[^>]+>", "", src), sp, rec, "probe")
    for k in range(spec["n"]):
        src = A.tree(rng)
        plain = re.sub(r"<[^>]+>", "", src)
        if not plain:
            continue
        r = rng.random()
        if r < 0.5:
            spans = A.disjoint_spans(rng, len(plain), kmax=4)
        else:
            spans = A.random_spans(rng, len(plain))
        ss = sorted(spans)
        if any(ss[i][1] == ss[i + 1][0] for i in range(len(ss) - 1)):
            rec.count("touching_sets")
        pos = positions(src)
        nc = crossing(src, plain, spans, pos)
        rec.count("crossing_spans:skip", nc)
        rec.count("crossing_spans:wrap", nc)
        rec.count("trees")
        if nc:
            rec.nontrivial([src, spans])
        judge(src, plain, spans, rec, "tree")
        if k % 3 == 0:
            # history: the same text content under other markup of the same length (tag names swapped
            # pairwise, so the tree stays well-formed) immediately afterwards
            swap = {"i": "b", "b": "i", "em": "h2", "h2": "em", "p": "u", "u": "p"}
            src2 = re.sub(r"<(/?)(i|b|em|h2|p|u)((?:\s[^>]*)?)>", lambda m: f"<{m.group(1)}{swap[m.group(2)]}{m.group(3)}>", src)
            # and one with a text-equal but structurally different layout: drop the first inline element
            src3 = re.sub(r"<(i|b|u|sup)>([^<]*)</\1>", r"\2<\1></\1>", src, count=1)
            for other in (src2, src3):
                if other != src and len(other) == len(src) and re.sub(r"<[^>]+>", "", other) == plain:
                    rec.count("same_plain_other_markup")
                    judge(other, plain, spans, rec, "tree-history")
        if len(rec.samples) < 3 and nc >= 2:
            rec.sample(dict(source=src, spans=spans))
        if k % 5 == 0:
            legal(rng, rec)


def legal(rng, rec):
    """Marked-up legal text (well-formed by construction) with extracted spans."""
    from eyecite import clean_text, get_citations
    from lxml import etree
    m = gen.markup_doc(rng).replace("&sect;", "&#167;")
    try:
        etree.fromstring(f"<div>{m}</div>")
    except etree.XMLSyntaxError:
        rec.count("legal_doc_not_wellformed_skipped")
        return
    plain = "".join(etree.fromstring(f"<div>{m}</div>").itertext())
    try:
        cs = get_citations(plain)
    except Exception:
        return
    spans = [c.span() for c in cs] if rng.random() < 0.5 else [c.full_span() for c in cs]
    spans = [s for s in spans if 0 <= s[0] <= s[1] <= len(plain)]
    rec.count("legal_docs")
    judge_legal(m, plain, spans, rec)


def judge_legal(m, plain, spans, rec):
    from eyecite import annotate_citations
    from lxml import etree
    anns = A.annotations(spans, style="a")
    for mode in ("skip", "wrap"):
        case = dict(source=m, plain=plain, spans=spans, mode=mode, legal=True)
        try:
            out = annotate_citations(plain, anns, source_text=m, unbalanced_tags=mode)
            rec.ev()
            tree = etree.fromstring(f"<div>{out}</div>")
        except etree.XMLSyntaxError as e:
            rec.violation(f"C11.illformed_{mode}", case, observed=dict(out=out[:600], error=str(e)[:120]))
            continue
        except Exception as e:
            rec.violation(f"C11.raised.{type(e).__name__}", case, observed=str(e)[:200])
            continue
        if "".join(tree.itertext()) != plain:
            rec.violation(f"C11.text_changed_{mode}", case, observed="".join(tree.itertext())[:300], expected=plain[:300])


def replay(w, rec):
    c = w["case"]
    sp = [tuple(x) for x in c["spans"]]
    if c.get("legal"):
        judge_legal(c["source"], c["plain"], sp, rec)
    else:
        judge(c["source"], c["plain"], sp, rec, "replay")
