"""C01 Standard citation forms are recognised with exact components and
offsets. Ground-truth workloads: the generator writes every citation and
keeps its kind, offsets and components as side-channel truth."""
import random
import re

from vmon import gen, instrument, tok
from vmon import monitors as M
from vmon.rxgen import cover, sample

LEVEL = "exploration"
EXHAUSTIVE = {"quick": False, "thorough": False}
RULE = ("W1 (database-exhaustive minimal forms): for EVERY citation extractor built from reporters-db (full "
        "'vol REPORTER page' and short 'vol REPORTER at page' form of every edition/variation set, every law "
        "and journal pattern) k validated members of the pattern body (k=1 quick, 8 thorough) and every "
        "database example string are embedded in neutral prose followed by a documented terminator; W2 (rich "
        "forms): full case citations (optional parallel cite, pin-cite shapes of the documented grammar, court "
        "strings from the whole courts-db, year, nested parentheticals, signals), short, supra, id./ibid., "
        "journal and statute forms over reporter strings sampled from the whole database; oracle = exactly one "
        "citation of the expected kind per written citation, exact span, groups, pin cite, year, court, "
        "defendant, antecedent, parenthetical, plaintiff suffix, candidate editions, full-span start/end; "
        "non-trivial = every generated case (each contains a written citation); distinct = distinct text")
ASSUMPTIONS = ["generator preconditions from the statement: pin cites followed by a documented terminator, id. "
               "forms surrounded by whitespace, party names synthetic and not reporter strings/stop words, "
               "statute cores are members the intended pattern itself matches in the embedded context",
               "group/edition equality is waived (counted as 'second_pattern_tie') when another extractor with a "
               "different group structure matches exactly the same characters",
               "expected court id = first exact-normalised citation_string in courts-db, else last prefix match"]
FLOORS = {"quick": {"db_members_checked": 3000, "db_members_ok": 2500, "db_members:laws": 500, "db_members:journals": 500,
                    "law_literals_checked": 1200, "law_literal_subsections": 250, "law_literal_ok:'§'": 150, "law_literal_ok:'§§ '": 150, "law_literal_ok:'§§'": 150,
                    "extractors_total": 6000, "minimal_forms_checked": 40000, "literal_forms_checked": 6000, "examples_checked": 700,
                    "form:full": 1200, "form:full_parallel": 300, "form:short": 500, "form:supra": 500,
                    "form:id": 500, "form:journal": 500, "form:law": 400, "form:antecedent_full": 500, "form:bare_pair": 500, "supra_punctuation_clusters": 30, "form:document": 500, "document_written_citations": 2500, "courts_checked": 300, "courts_exhaustive": 1800,
                    "pin_cites_checked": 1000},
          "thorough": {"minimal_forms_checked": 250000, "form:full": 80000, "form:full_parallel": 20000,
                       "form:short": 30000, "form:supra": 30000, "form:id": 30000, "form:journal": 30000,
                       "form:law": 25000, "courts_checked": 20000}}
K = {"quick": 1, "thorough": 8}
N = {"quick": 260, "thorough": 16000}
SHARDS = {"quick": 8, "thorough": 14}
TERM = [". Further text follows.", "; the rest.", ".", ", and more.", ") and more.", " (noting lekfen).", "] then.",
        " (overruled in part in 1995).", " (citing Lekfen).", ""]


def plan(tier, seed):
    n = SHARDS[tier]
    return [dict(i=i, nshards=n, k=K[tier], n=N[tier], seed=seed * 1000 + i) for i in range(n)]


def classify(v):
    c = v.get("case") or {}
    pr = c.get("parallel_reporter")
    if pr and ("(" in pr or ";" in pr) and v.get("monitor") in (
            "C01.full_year", "C01.full_court", "C01.full_parenthetical", "C01.full_span_end"):
        return "parallel-reporter-with-parenthesis"
    if v.get("monitor") in ("C01.short_parenthetical", "C01.supra_parenthetical", "C01.id_parenthetical",
                            "C01.journal_parenthetical", "C01.law_parenthetical") \
            and v.get("observed") is None and isinstance(v.get("expected"), str) and has_special_token(v["expected"]):
        return "parenthetical-with-special-token-after-string-scanned-forms"
    if v.get("monitor") in ("C01.bare_pair_year", "C01.bare_pair_pin_cite") and c.get("form") == "bare_pair" \
            and c.get("stop_word_before_first_and_none_between") and (v.get("observed") or [None])[0] == 1:
        return "string-cite-after-closed-citation-taken-as-parallel"
    return None


def has_special_token(par):
    """Does the written parenthetical contain a special token (stop word, citation, section sign, ...)? The
    text scanned after short, supra, id., law and journal citations ends at the next special token."""
    from eyecite.tokenizers import default_tokenizer
    try:
        words, _ = default_tokenizer.tokenize("(" + par + ")")
    except Exception:
        return False
    return any(not isinstance(w, str) for w in words)


# ------------------------------------------------------------------ helpers

def extract(text, rec, case):
    from eyecite import get_citations
    try:
        return get_citations(text)
    except Exception as e:
        rec.violation("C01.raised." + type(e).__name__, case, observed=str(e)[:200])
        return None


def fail(rec, what, case, observed=None, expected=None):
    tag = getattr(rec, "c01_tag", None)
    if tag:
        case = dict(case, replay_form=tag[0], replay_rng=tag[1])
    rec.violation("C01." + what, case, observed=observed, expected=expected)
    return False


def exp_court(court_str):
    from courts_db import courts
    norm = re.sub(r"[^\w]", "", court_str).lower()
    code = None
    if not norm:
        return None
    for c in courts:
        s = re.sub(r"[^\w]", "", c["citation_string"]).lower()
        if s == norm:
            return str(c["id"])
        if s.startswith(norm):
            code = c["id"]
    return code


_inner = {}


def inner_of(e):
    if id(e) not in _inner:
        if e.regex.startswith(gen.PRE) and e.regex.endswith(gen.POST):
            body = e.regex[len(gen.PRE):-len(gen.POST)]
            _inner[id(e)] = (body, re.compile(body, e.flags))
        else:
            _inner[id(e)] = (None, None)
    return _inner[id(e)]


def other_structures(core, e):
    """Does a second citation pattern with a different group structure
    match exactly the same characters?"""
    gd = inner_of(e)[1].fullmatch(core).groupdict()
    for o in gen.DB.cit_extractors:
        if o is e:
            continue
        if o.strings and not any(s in core for s in o.strings):
            continue
        body, rx = inner_of(o)
        if rx is None:
            continue
        m = rx.fullmatch(core)
        if m and (m.groupdict() != gd or o.extra["short"] != e.extra["short"]):
            return True
    return False


# ------------------------------------------------------------------ W1

def minimal_form(e, core, rng, rec, origin):
    from eyecite.models import (FullCaseCitation, FullJournalCitation, FullLawCitation, ReferenceCitation,
                                ShortCaseCitation, UnknownCitation)
    body, rx = inner_of(e)
    gt = rx.fullmatch(core).groupdict()
    short = e.extra["short"]
    pre = rng.choice(["The court held otherwise in ", "See ", "", "Compare "])
    term = rng.choice([". Further text follows.", "; further text.", ".", ""]) if not short else \
        rng.choice([". Further text.", "; further.", "."])
    text = pre + core + term
    case = dict(text=text, origin=origin, core=core)
    if "literal" not in origin:
        # precondition (statement: "well-formed ..."; DESIGN §4/C01): the intended pattern itself matches
        # exactly the written core in this context (a sampled section like '477(5)(L)(3)' is legitimately
        # split by the pattern into section '477' and pin cite '(5)(L)(3)')
        ms = list(e.compiled_regex.finditer(text))
        if len(ms) != 1 or ms[0].span(1) != (len(pre), len(pre) + len(core)):
            rec.count("member_not_matched_as_written_skipped")
            return None
    cs = extract(text, rec, case)
    if cs is None:
        return
    rec.ev()
    rec.nontrivial(text)
    cs = [c for c in cs if not isinstance(c, (UnknownCitation, ReferenceCitation))]
    tie = None
    if len(cs) != 1:
        return fail(rec, "minimal_count", case, observed=[(M.kind(c), c.span()) for c in cs], expected=1)
    c = cs[0]
    exp_span = (len(pre), len(pre) + len(core))
    if c.span() != exp_span:
        tie = other_structures(core, e)
        if not tie:
            return fail(rec, "minimal_span", case, observed=c.span(), expected=exp_span)
    eds = list(e.extra["exact_editions"]) + list(e.extra["variation_editions"])
    srcs = {x.reporter.source for x in (e.extra["exact_editions"] or e.extra["variation_editions"])}
    want = ShortCaseCitation if short else (
        FullCaseCitation if "reporters" in srcs else FullLawCitation if "laws" in srcs else FullJournalCitation)
    g = dict(gt)
    if g.get("page") and re.fullmatch("_+", g["page"]):
        g["page"] = None
    ok = type(c) is want and c.groups == g and set(eds) <= (set(c.exact_editions) | set(c.variation_editions))
    if not ok:
        if tie is None:
            tie = other_structures(core, e)
        if tie:
            rec.count("second_pattern_tie")
        elif type(c) is not want:
            return fail(rec, "minimal_kind", case, observed=M.kind(c), expected=want.__name__)
        elif c.groups != g:
            return fail(rec, "minimal_groups", case, observed=c.groups, expected=g)
        else:
            return fail(rec, "minimal_editions", case,
                        observed=sorted({x.short_name for x in c.exact_editions + c.variation_editions}),
                        expected=sorted({x.short_name for x in eds}))
    rec.count("minimal_forms_checked")
    return True


def run_minimal(spec, rec, rng):
    for idx, e in enumerate(gen.DB.cit_extractors):
        if idx % spec["nshards"] != spec["i"]:
            continue
        body, rx = inner_of(e)
        if rx is None:
            rec.count("extractor_shape_unknown")
            continue
        got = 0
        # members with branch coverage of the pattern body: every alternative (every reporter spelling, every
        # page shape) at least once, then random ones
        try:
            pool = [c for c in cover(body, rng, e.flags, max_samples=6 + 6 * spec["k"], maxrep=2)]
        except Exception:
            pool = []
        for core in pool:
            if "\n" in core or not rx.fullmatch(core):
                continue
            minimal_form(e, core, rng, rec, dict(extractor=idx))
            got += 1
        # random members on top: at least one member per extractor on the quick tier, k * 4 further random
        # members on the thorough tier (branch coverage stops as soon as every alternative was taken)
        want = got + spec["k"] * 4 if spec["k"] > 1 else spec["k"]
        for _ in range(spec["k"] * 12 if got < want else 0):
            try:
                core = sample(body, rng, e.flags, maxrep=3 if spec["k"] > 1 else 2)
            except Exception:
                break
            if "\n" in core or not rx.fullmatch(core):
                continue
            minimal_form(e, core, rng, rec, dict(extractor=idx))
            got += 1
            if got >= want:
                break
        if not got:
            rec.count("extractor_without_member")
        if idx % 700 == spec["i"] and len(rec.samples) < 2 and got:
            rec.sample(dict(extractor=idx, member=core))


def run_literals(spec, rec, rng):
    """Independent of the pattern builder: 'vol REPORTER page' and 'vol REPORTER at page' written literally
    for every standard-template reporter string (editions and variations) and journal key."""
    from eyecite.models import (FullCaseCitation, FullJournalCitation, ReferenceCitation, ShortCaseCitation,
                                UnknownCitation)
    from eyecite.tokenizers import EDITIONS_LOOKUP
    strings = [(r, "reporters") for r in gen.DB.std_all] + [(j, "journals") for j in gen.DB.journals]
    for n, (r, src) in enumerate(strings):
        if n % spec["nshards"] != spec["i"]:
            continue
        for short in (False, True):
            if short and src != "reporters":
                continue
            vol, page = rng.randint(1, 999), rng.randint(1, 1500)
            pre = rng.choice(["The court held otherwise in ", "See ", "", "Compare "])
            core = f"{vol} {r} at {page}" if short else f"{vol} {r} {page}"
            term = rng.choice([". Further text follows.", "; further text.", ".", ") and", ", and"] + ([] if short else ["", " (1999)."]))
            text = pre + core + term
            case = dict(text=text, origin=dict(literal=r, short=short), core=core)
            cs = extract(text, rec, case)
            if cs is None:
                continue
            rec.ev()
            rec.nontrivial(text)
            rec.count("literal_forms_checked")
            cs = [c for c in cs if not isinstance(c, (UnknownCitation, ReferenceCitation))]
            if len(cs) != 1:
                fail(rec, "literal_count", case, observed=[(M.kind(c), c.span()) for c in cs], expected=1)
                continue
            c = cs[0]
            want = ShortCaseCitation if short else (FullCaseCitation if src == "reporters" else FullJournalCitation)
            exp_span = (len(pre), len(pre) + len(core))
            g = (c.groups.get("volume"), c.groups.get("reporter"), c.groups.get("page"))
            eds = set(EDITIONS_LOOKUP[r])
            have = set(c.exact_editions) | set(c.variation_editions)
            if type(c) is want and c.span() == exp_span and g == (str(vol), r, str(page)) and eds & have:
                continue
            # another pattern with a different group structure on the same characters?
            tie = False
            for o in gen.DB.cit_extractors:
                if o.strings and not any(x in core for x in o.strings):
                    continue
                body, rx = inner_of(o)
                m = rx.fullmatch(core) if rx is not None else None
                if m and ((m.groupdict().get("volume"), m.groupdict().get("reporter"), m.groupdict().get("page"))
                          != (str(vol), r, str(page)) or set(m.groupdict()) != {"volume", "reporter", "page"}
                          or o.extra["short"] != short):
                    tie = True
                    break
            if tie:
                rec.count("second_pattern_tie")
            elif type(c) is not want:
                fail(rec, "literal_kind", case, observed=M.kind(c), expected=want.__name__)
            elif c.span() != exp_span:
                fail(rec, "literal_span", case, observed=c.span(), expected=exp_span)
            elif g != (str(vol), r, str(page)):
                fail(rec, "literal_groups", case, observed=g, expected=(str(vol), r, str(page)))
            else:
                fail(rec, "literal_editions", case, observed=sorted(x.short_name for x in have),
                     expected=sorted(x.short_name for x in eds))


# ------------------------------------------------------------------ statutes written from the database templates

_LAW_TOKEN = re.compile(r"\$([a-z_]+)|\(\?P<(\w+)>((?:[^()\\]|\\.)*)\)|\\(.)|(,\?)|(.)", re.S)
_LAW_VALUES = {"law_section": ["120.68", "2", "12-34", "1.2.3", "5:10", "1001", "33-4.5"],
               "law_subject": ["Penal", "Civ. Proc.", "Educ.", "Bus. & Prof."],
               "law_year": ["1999", "2004", "1887"], "volume": ["12", "3", "101"],
               "page_with_commas": ["123", "1,234", "7"]}
_LAW_GROUP = {"law_section": "section", "law_subject": "subject", "law_year": "year", "volume": "volume",
              "page_with_commas": "page"}


def law_instance(key, template, rng):
    """Write one citation from a reporters-db law template *without* going through eyecite's pattern builder:
    variables get literal values, named groups a sampled member, escapes are undone. Returns (text, groups)
    or None when the template uses regex syntax beyond that."""
    out, groups = [], {}

    def render(t, into):
        for m in _LAW_TOKEN.finditer(t):
            var, gname, gbody, esc, optcomma, ch = m.groups()
            if var:
                if var == "reporter":
                    into.append(key)
                    groups["reporter"] = key
                elif var in _LAW_VALUES:
                    v = rng.choice(_LAW_VALUES[var])
                    into.append(v)
                    groups[_LAW_GROUP[var]] = v
                else:
                    return False
            elif gname:
                if "$" in gbody or gname == "reporter":
                    sub = []
                    if not render(gbody, sub):
                        return False
                    v = "".join(sub)
                else:
                    try:
                        v = sample(gbody, rng, 0, maxrep=2, ascii_only=True)
                    except Exception:
                        return False
                    if not re.fullmatch(gbody, v):
                        return False
                into.append(v)
                groups[gname] = v
            elif esc:
                if esc.isalnum():
                    return False
                into.append(esc)
            elif optcomma:
                into.append(rng.choice([",", ""]))
            elif ch in "()[]{}*+?|^$.":
                if ch == ".":
                    into.append(".")    # 'r. ' written unescaped in two templates: the literal is a member
                    continue
                return False
            else:
                into.append(ch)
        return True

    if not render(template, out):
        return None
    return "".join(out), groups


def run_law_literals(spec, rec, rng):
    """Every (law key, template) of reporters-db written literally, the section sign as '§ ', '§', '§§ ' and
    '§§' (the builder documents the last three as accepted)."""
    from reporters_db import LAWS
    from eyecite.models import FullLawCitation, ReferenceCitation, UnknownCitation
    n = -1
    for key in sorted(LAWS):
        for entry in LAWS[key]:
            for template in entry["regexes"]:
                n += 1
                if n % spec["nshards"] != spec["i"]:
                    continue
                for rep in range(spec["k"] * 2):
                    inst = law_instance(key, template, rng)
                    if inst is None:
                        rec.count("law_template_outside_literal_syntax")
                        break
                    core0, groups = inst
                    signs = ["§ ", "§", "§§ ", "§§"] if "§ " in core0 else [None]
                    for sign in signs:
                        core = core0.replace("§ ", sign) if sign else core0
                        pre = rng.choice(["See ", "under ", "", "It is governed by "])
                        term = rng.choice([". Further text follows.", "; further text.", ".", " (2007).", ", and more."])
                        meta = None
                        if groups.get("section") and core.endswith(groups["section"]) and rng.random() < 0.5:
                            # subsections directly after the section number are the statute's pin cite; publisher
                            # and year follow in one parenthesis
                            chain = rng.choice(["(a)", "(1)", "(r)(viii)", "(a)(2)(B)", "(xiii)", "(a) and (d)", "(b) et seq.",
                                                "(iv)(a)", "(1234)", "(Z)(9)"])
                            pub, year = rng.choice([(None, None), ("West", "2009"), (None, "1987"), ("Lexis Supp.", "2019")])
                            paren = f" ({' '.join(x for x in (pub, year) if x)})" if year else ""
                            term = chain + paren + rng.choice([". Further text follows.", "; further text.", "."])
                            meta = dict(pin_cite=chain, year=year, publisher=pub)
                        text = pre + core + term
                        case = dict(text=text, origin=dict(law=key, template=template, sign=sign), core=core)
                        law_literal(rec, text, len(pre), core, groups, case, meta)


def law_literal(rec, text, st, core, groups, case, meta=None):
    from eyecite.models import FullLawCitation, ReferenceCitation, UnknownCitation
    cs = extract(text, rec, case)
    if cs is None:
        return
    rec.ev()
    rec.nontrivial(text)
    rec.count("law_literals_checked")
    rec.count("law_literal_sign:" + repr(case["origin"].get("sign")))
    en = st + len(core)
    good = [c for c in cs if type(c) is FullLawCitation and c.span() == (st, en)
            and all(c.groups.get(k) == v for k, v in groups.items())]
    rest = [c for c in cs if c not in good and not isinstance(c, ReferenceCitation)]
    if len(good) == 1 and not rest:
        rec.count("law_literal_ok:" + repr(case["origin"].get("sign")))
        if meta:
            rec.count("law_literal_subsections")
            c = good[0]
            for k, v in meta.items():
                if getattr(c.metadata, k) != v:
                    fail(rec, "law_literal_" + k, case, observed=getattr(c.metadata, k), expected=v)
                    break
        return
    # a second pattern matching other characters, or the same characters with another group structure?
    for o in gen.DB.cit_extractors:
        if o.strings and not any(x in text for x in o.strings):
            continue
        for m in o.compiled_regex.finditer(text):
            a, b = m.span(1) if m.re.groups else m.span()
            if b <= st or a >= en:
                continue
            gd = m.groupdict()
            if (a, b) != (st, en) or any(gd.get(k) != v for k, v in groups.items()):
                rec.count("second_pattern_tie")
                rec.count("law_literal_tie")
                if len(rec.samples) < 6:
                    rec.sample(dict(tie=text, other=m.group(0), got=[(M.kind(c), c.span()) for c in cs]))
                return
    fail(rec, "law_literal", case, observed=[(M.kind(c), c.span(), c.groups) for c in cs], expected=dict(span=(st, en), groups=groups))


# ------------------------------------------------------------------ members of the *database's* own patterns

def db_patterns():
    """(source, key, name written, edition name, regex) for every template of every reporter edition, journal
    and law of reporters-db, expanded with reporters-db's own variables and utilities - not with the
    library's pattern builder (which widens these patterns: its language must contain this one)."""
    from string import Template
    from reporters_db import JOURNALS, LAWS, REGEX_VARIABLES, REPORTERS
    from reporters_db.utils import recursive_substitute
    out = []

    def add(source, key, names, edition, templates):
        for t in templates:
            try:
                rt = recursive_substitute(t, REGEX_VARIABLES)
            except Exception:
                continue
            for n in names:
                out.append((source, key, n, edition, Template(rt).safe_substitute(edition=re.escape(n), reporter=f"(?P<reporter>{re.escape(n)})")))

    for key, cl in sorted(REPORTERS.items()):
        for src in cl:
            for en, ed in src["editions"].items():
                add("reporters", key, [en] + sorted(v for v, t in src["variations"].items() if t == en), en,
                    ed.get("regexes") or ["$full_cite"])
    for key, cl in sorted(JOURNALS.items()):
        for src in cl:
            add("journals", key, [key] + sorted(src.get("variations") or []), key, src.get("regexes") or ["$full_cite"])
    for key, cl in sorted(LAWS.items()):
        for src in cl:
            add("laws", key, [key] + sorted(src.get("variations") or []), key, src.get("regexes") or [])
    return out


_DBP = None


def run_db_members(spec, rec, rng):
    from eyecite.models import FullCaseCitation, FullJournalCitation, FullLawCitation
    global _DBP
    if _DBP is None:
        _DBP = db_patterns()
    cls = {"reporters": FullCaseCitation, "journals": FullJournalCitation, "laws": FullLawCitation}
    # the edition name always; of the variations a rotating sample (they are many)
    for n, (source, key, name, edition, regex) in enumerate(_DBP):
        if n % spec["nshards"] != spec["i"]:
            continue
        if name != edition and (n // spec["nshards"] + spec["seed"]) % 3:
            continue
        try:
            rx = re.compile(regex)
            pool = list(cover(regex, rng, 0, max_samples=2 + spec["k"], maxrep=2, ascii_only=True))
        except Exception:
            rec.count("db_pattern_not_sampled")
            continue
        for core in pool:
            m = rx.fullmatch(core)
            if not m or "\n" in core or core != core.strip():
                continue
            groups = {k: v for k, v in m.groupdict().items() if v is not None}
            pre = rng.choice(["See ", "under ", "", "The court held otherwise in "])
            term = rng.choice([". Further text follows.", "; further text.", ".", ", and more."])
            text = pre + core + term
            case = dict(text=text, origin=dict(db=source, key=key, name=name, sign=source), core=core)
            db_literal(rec, text, len(pre), core, groups, case, cls[source])


def db_literal(rec, text, st, core, groups, case, cls):
    from eyecite.models import ReferenceCitation
    cs = extract(text, rec, case)
    if cs is None:
        return
    rec.ev()
    rec.nontrivial(text)
    rec.count("db_members_checked")
    rec.count("db_members:" + case["origin"]["db"])
    en = st + len(core)
    good = [c for c in cs if type(c) is cls and c.span() == (st, en)
            and all(c.groups.get(k) == v for k, v in groups.items())]
    rest = [c for c in cs if c not in good and not isinstance(c, ReferenceCitation)]
    if len(good) == 1 and not rest:
        rec.count("db_members_ok")
        return
    # a second pattern on (part of) the same characters with another extent or group structure?
    for o in gen.DB.cit_extractors:
        if o.strings and not any(x in text for x in o.strings):
            continue
        for m in o.compiled_regex.finditer(text):
            a, b = m.span(1) if m.re.groups else m.span()
            if b <= st or a >= en:
                continue
            gd = m.groupdict()
            srcs = {x.reporter.source for x in list(o.extra["exact_editions"]) + list(o.extra["variation_editions"])}
            if (a, b) != (st, en) or any(gd.get(k) != v for k, v in groups.items()) or o.extra["short"] \
                    or (srcs - {case["origin"]["db"]}):
                # ... or the same string is also a reporter / journal / statute string of another kind
                rec.count("second_pattern_tie")
                rec.count("db_member_tie")
                return
    fail(rec, "db_member", case, observed=[(M.kind(c), c.span(), c.groups) for c in cs],
         expected=dict(kind=cls.__name__, span=(st, en), groups=groups))


def db_examples():
    from reporters_db import JOURNALS, LAWS, REPORTERS
    out = []
    for db in (REPORTERS, LAWS, JOURNALS):
        for k, cl in db.items():
            for s in cl:
                out += s.get("examples") or []
                for ed in (s.get("editions") or {}).values():
                    if isinstance(ed, dict):
                        out += ed.get("examples") or []
    return sorted(set(out))


def run_examples(spec, rec, rng):
    for n, ex in enumerate(db_examples()):
        if n % spec["nshards"] != spec["i"]:
            continue
        # a database example is in the quantifier when some citation pattern matches it as a whole
        es = [e for e in gen.DB.cit_extractors if not e.extra["short"]
              and (not e.strings or any(s in ex for s in e.strings))
              and inner_of(e)[1] is not None and inner_of(e)[1].fullmatch(ex)]
        if not es:
            rec.count("examples_not_matched_by_any_pattern")
            continue
        if minimal_form(es[0], ex, rng, rec, dict(example=ex)) is not None:
            rec.count("examples_checked")


# ------------------------------------------------------------------ W2 rich forms

def check_full(rng, rec):
    from eyecite.models import FullCaseCitation, ReferenceCitation
    from eyecite.tokenizers import EDITIONS_LOOKUP
    P, D = gen.party(rng), gen.party(rng)
    rep = rng.choice(gen.DB.std)
    vol, page = rng.randint(1, 999), rng.randint(1, 1500)
    core = f"{vol} {rep} {page}"
    parallel = rng.random() < 0.25
    pc = gen.pinshape(rng, page) if rng.random() < 0.5 else None
    year = (rng.choice([1600, 1601, gen.YEARNOW, gen.YEARNOW + 1]) if rng.random() < 0.1 else rng.randint(1700, gen.YEARNOW)) \
        if rng.random() < 0.8 else None      # the accepted range is 1600 .. next year, both included
    court = rng.choice(gen.DB.courts) if (year and rng.random() < 0.5) else None
    par = gen.paren(rng) if (year and rng.random() < 0.4) else None
    lead = rng.choice(["", "See ", "In ", "The rule of ", "As held in ", "But see ", "Cf. "])
    sep = rng.choice([", ", " "])
    s = lead + P + " v. " + D + sep
    c0 = len(s)
    s += core
    c1 = len(s)
    if pc:
        s += ", " + pc
    p0 = p1 = None
    if parallel:
        rep2 = rng.choice(gen.DB.std)
        while rep2.startswith("("):
            # '1 X 12, 123 (So. 2nd) 326' is genuinely ambiguous: '123' is a well-formed pin cite followed
            # by a parenthetical; a parallel reporter that starts with '(' is outside the unambiguous forms
            rep2 = rng.choice(gen.DB.std)
        core2 = f"{rng.randint(1, 999)} {rep2} {rng.randint(1, 1500)}"
        s += ", "
        p0 = len(s)
        s += core2
        p1 = len(s)
    if year:
        ob, cb = rng.choice([("(", ")"), ("(", ")"), ("(", ")"), ("[", "]")])   # '[1999]' is accepted like '(1999)'
        s += " " + ob + (court + " " if court else "") + str(year) + cb
    if par:
        s += " (" + par + ")"
    cite_end = len(s)
    # what "the written citation" of the first cite is: up to the closing parenthesis if there is one,
    # otherwise its own core and pin cite
    first_end = cite_end if year else (c1 + (len(", " + pc) if pc else 0))
    needs_term = bool(pc) and not year and not parallel
    s += rng.choice([". Further text follows.", "; the rest.", ".", "] then.", ") then.", ", then."]) if needs_term else \
        rng.choice([". Further text follows.", "; the rest.", ".", "", ", and so on."])
    if s.endswith(".") and rng.random() < 0.25:
        # later parentheses in the same paragraph (inside the 300-character scan window)
        s += rng.choice([" The court (per curiam) agreed.", " (Emphasis added.)", " See the appendix (table 2) and note 3 (below)."])
    if s.endswith(".") and rng.random() < 0.25:
        # the same case referred to again by name and pin cite later in the document (a reference
        # citation; it must not disturb the components of the written citations)
        s += f" The court in {rng.choice([D, P.split()[-1]])} at {page + rng.randint(1, 9)} agreed."
    case = dict(text=s, form="full", parallel_reporter=(rep2 if parallel else None))
    cs = extract(s, rec, case)
    if cs is None:
        return
    rec.ev()
    rec.nontrivial(s)
    rec.count("form:full_parallel" if parallel else "form:full")
    cs = [c for c in cs if not isinstance(c, ReferenceCitation)]
    nexp = 2 if parallel else 1
    if len(cs) != nexp:
        return fail(rec, "full_count", case, observed=[(M.kind(c), c.span(), c.matched_text()) for c in cs], expected=nexp)
    c = cs[0]
    if type(c) is not FullCaseCitation:
        return fail(rec, "full_kind", case, observed=M.kind(c))
    if c.span() != (c0, c1):
        return fail(rec, "full_span", case, observed=c.span(), expected=(c0, c1))
    g = c.groups
    if (g.get("volume"), g.get("reporter"), g.get("page")) != (str(vol), rep, str(page)):
        return fail(rec, "full_groups", case, observed=g, expected=(str(vol), rep, str(page)))
    m = c.metadata
    if m.pin_cite != pc:
        return fail(rec, "full_pin_cite", case, observed=m.pin_cite, expected=pc)
    if pc:
        rec.count("pin_cites_checked")
    if m.year != (str(year) if year else None) or c.year != year:
        return fail(rec, "full_year", case, observed=(m.year, c.year), expected=year)
    if court:
        exp = exp_court(court)
        rec.count("courts_checked")
        if m.court != exp:
            return fail(rec, "full_court", dict(case, court=court), observed=m.court, expected=exp)
    if m.defendant != D:
        return fail(rec, "full_defendant", case, observed=m.defendant, expected=D)
    if not (m.plaintiff and P.endswith(m.plaintiff)):
        return fail(rec, "full_plaintiff", case, observed=m.plaintiff, expected="suffix of " + P)
    if m.parenthetical != par:
        return fail(rec, "full_parenthetical", case, observed=m.parenthetical, expected=par)
    fs = c.full_span()
    pstart = len(lead) + len(P) - len(m.plaintiff)
    if fs[0] != pstart:
        return fail(rec, "full_span_start", case, observed=fs, expected=pstart)
    if not (first_end <= fs[1] and s[first_end:fs[1]].strip() == ""):
        return fail(rec, "full_span_end", case, observed=fs, expected=first_end)
    if not set(EDITIONS_LOOKUP[rep]) & (set(c.exact_editions) | set(c.variation_editions)):
        return fail(rec, "full_editions", case, observed=[e.short_name for e in c.exact_editions + c.variation_editions], expected=rep)
    if parallel:
        c2 = cs[1]
        if type(c2) is not FullCaseCitation or c2.span() != (p0, p1):
            return fail(rec, "parallel_span", case, observed=(M.kind(c2), c2.span()), expected=(p0, p1))
        m2 = c2.metadata
        if (m2.plaintiff, m2.defendant) != (m.plaintiff, m.defendant):
            return fail(rec, "parallel_parties", case, observed=(m2.plaintiff, m2.defendant), expected=(m.plaintiff, m.defendant))
        if m2.year != (str(year) if year else None) or m2.parenthetical != par:
            return fail(rec, "parallel_year_parenthetical", case, observed=(m2.year, m2.parenthetical), expected=(year, par))
        f2 = c2.full_span()
        if f2[0] != pstart or not (cite_end <= f2[1] and s[cite_end:f2[1]].strip() == ""):
            return fail(rec, "parallel_full_span", case, observed=f2, expected=(pstart, cite_end))
    if len(rec.samples) < 4:
        rec.sample(dict(text=s, span=c.span(), full_span=fs, pin=m.pin_cite, court=m.court))


def check_antecedent_full(rng, rec):
    """Full case citation introduced by a one-word antecedent instead of party names
    ('Johnson, 515 U.S. 304, 310 (1995)', 'Nobelman at 332, 113 S.Ct. 2106')."""
    from eyecite.models import FullCaseCitation
    name = gen.word(rng)
    rep = rng.choice(gen.DB.std)
    vol, page = rng.randint(1, 999), rng.randint(1, 1500)
    pre_pin = rng.random() < 0.3
    post_pin = gen.pinshape(rng, page) if rng.random() < 0.6 else None
    year = rng.randint(1800, gen.YEARNOW) if rng.random() < 0.6 else None
    lead = rng.choice(["", "As in ", "Under ", "In "])
    s = lead + name + (f" at {page + 3}" if pre_pin else "") + ", "
    st = len(s)
    s += f"{vol} {rep} {page}"
    en = len(s)
    if post_pin:
        s += ", " + post_pin
    if year:
        s += f" ({year})"
    ce = len(s)
    s += rng.choice([". Further text.", "; the rest.", "."])
    case = dict(text=s, form="antecedent_full")
    rec.count("form:antecedent_full")
    c = one(s, FullCaseCitation, rec, case)
    if not c:
        return
    if c.span() != (st, en):
        return fail(rec, "antefull_span", case, observed=c.span(), expected=(st, en))
    if c.metadata.antecedent_guess != name:
        return fail(rec, "antefull_antecedent", case, observed=c.metadata.antecedent_guess, expected=name)
    # with a pin cite on both sides the one attached to the antecedent is reported; the pin-cite span must
    # cover whichever text is reported (C02), here checked directly
    exp_pin = f"at {page + 3}" if pre_pin else post_pin
    if c.metadata.pin_cite != exp_pin:
        return fail(rec, "antefull_pin_cite", case, observed=c.metadata.pin_cite, expected=exp_pin)
    if exp_pin and exp_pin not in s[c.span_with_pincite()[0]:c.span_with_pincite()[1]]:
        return fail(rec, "antefull_pin_span", case, observed=c.span_with_pincite(), expected=exp_pin)
    if exp_pin:
        rec.count("pin_cites_checked")
    if c.metadata.year != (str(year) if year else None) or c.year != year:
        return fail(rec, "antefull_year", case, observed=(c.metadata.year, c.year), expected=year)
    fs = c.full_span()
    if fs[0] != len(lead) or not (ce <= fs[1] and s[ce:fs[1]].strip() == ""):
        return fail(rec, "antefull_full_span", case, observed=fs, expected=(len(lead), ce))


def check_scenario_doc(rng, rec):
    """Several written citations of different kinds in one running text (the scenario generator of C05):
    exactly one citation of the expected kind per written citation, at its written start."""
    import eyecite.resolve as ER
    from eyecite.models import ReferenceCitation
    from vmon.props import c05
    sc = c05.random_scenario(rng, ER.MAX_OPINION_PAGE_COUNT)
    case = dict(text=sc.text, form="document")
    cs = extract(sc.text, rec, case)
    if cs is None:
        return
    rec.ev()
    rec.nontrivial(sc.text)
    rec.count("form:document")
    rec.count("document_written_citations", len(sc.refs))
    kinds = {"full": "FullCaseCitation", "short": "ShortCaseCitation", "supra": "SupraCitation", "id": "IdCitation"}
    got = [(M.kind(c), c.span()[0]) for c in cs if not isinstance(c, ReferenceCitation)]
    want = [(kinds[r[1]], r[0]) for r in sc.refs]
    if got != want:
        return fail(rec, "document_citations", case, observed=got[:20], expected=want[:20])
    if any(isinstance(c, ReferenceCitation) for c in cs):
        return fail(rec, "document_unexpected_reference", case,
                    observed=[(c.span(), c.matched_text()) for c in cs if isinstance(c, ReferenceCitation)])


def run_courts(spec, rec, rng):
    """EXHAUSTIVE over the parenthetical-safe court strings of courts-db."""
    from eyecite.models import FullCaseCitation, ReferenceCitation
    for n, court in enumerate(gen.DB.courts):
        if n % spec["nshards"] != spec["i"]:
            continue
        P, D = gen.word(rng), gen.word(rng)
        year = rng.randint(1800, gen.YEARNOW)
        s = f"{P} v. {D}, {rng.randint(1, 999)} {rng.choice(['F.2d', 'A.2d', 'N.E.2d', 'P.3d', 'So. 2d'])} {rng.randint(1, 999)} ({court} {year})."
        case = dict(text=s, form="court", court=court)
        cs = extract(s, rec, case)
        if cs is None:
            continue
        rec.ev()
        rec.nontrivial(s)
        cs = [c for c in cs if not isinstance(c, ReferenceCitation)]
        if len(cs) != 1 or type(cs[0]) is not FullCaseCitation:
            fail(rec, "court_form_count", case, observed=[(M.kind(c), c.span()) for c in cs], expected=1)
            continue
        rec.count("courts_exhaustive")
        exp = exp_court(court)
        if cs[0].metadata.court != exp:
            fail(rec, "full_court", case, observed=cs[0].metadata.court, expected=exp)
        if cs[0].metadata.year != str(year):
            fail(rec, "full_year", case, observed=cs[0].metadata.year, expected=year)


def one(s, cls, rec, case):
    from eyecite.models import ReferenceCitation
    cs = extract(s, rec, case)
    if cs is None:
        return None
    rec.ev()
    rec.nontrivial(s)
    cs = [c for c in cs if not isinstance(c, ReferenceCitation)]
    if len(cs) != 1:
        fail(rec, cls.__name__ + "_count", case, observed=[(M.kind(c), c.span()) for c in cs], expected=1)
        return None
    if type(cs[0]) is not cls:
        fail(rec, cls.__name__ + "_kind", case, observed=M.kind(cs[0]))
        return None
    return cs[0]


def pin_simple(rng, p):
    return gen.pinshape(rng, p)


def check_short(rng, rec):
    from eyecite.models import ShortCaseCitation
    name = gen.word(rng)
    rep = rng.choice(gen.DB.std)
    vol, p = rng.randint(1, 999), rng.randint(1, 1500)
    c2 = rng.choice(["", ","])
    pin = pin_simple(rng, p)
    while not pin[0].isdigit():
        pin = pin_simple(rng, p)      # the page group of a short form is the first number after 'at'
    first = re.match(r"\d+", pin)[0]
    lead = rng.choice(["", "See ", "Later, in "])
    s = f"{lead}{name}, "
    st = len(s)
    s += f"{vol} {rep}{c2} at {pin}"
    en = len(s)
    term = rng.choice(TERM[:9])
    par = term[2:-2] if term.startswith(" (") else None
    s += term
    case = dict(text=s, form="short")
    rec.count("form:short")
    c = one(s, ShortCaseCitation, rec, case)
    if not c:
        return
    if c.span() != (st, en):
        return fail(rec, "short_span", case, observed=c.span(), expected=(st, en))
    if (c.groups["volume"], c.groups["reporter"], c.groups["page"]) != (str(vol), rep, first):
        return fail(rec, "short_groups", case, observed=c.groups, expected=(str(vol), rep, first))
    if c.metadata.pin_cite != pin:
        return fail(rec, "short_pin_cite", case, observed=c.metadata.pin_cite, expected=pin)
    rec.count("pin_cites_checked")
    if c.metadata.antecedent_guess != name:
        return fail(rec, "short_antecedent", case, observed=c.metadata.antecedent_guess, expected=name)
    if c.metadata.parenthetical != par:
        return fail(rec, "short_parenthetical", case, observed=c.metadata.parenthetical, expected=par)
    if c.full_span()[0] != len(lead):
        return fail(rec, "short_full_span_start", case, observed=c.full_span(), expected=len(lead))
    if not (en <= c.full_span()[1]):
        return fail(rec, "short_full_span_end", case, observed=c.full_span(), expected=en)


def check_supra(rng, rec):
    from eyecite.models import SupraCitation
    name = gen.word(rng)
    p = rng.randint(1, 1500)
    pin = pin_simple(rng, p) if rng.random() < 0.7 else None
    vol = rng.randint(1, 99) if rng.random() < 0.2 else None
    lead = rng.choice(["", "See ", "Compare "])
    s = f"{lead}{name}, " + (f"{vol} " if vol else "")
    st = len(s)
    s += "supra"
    if pin:
        s += f", at {pin}"
    en = len(s)
    comma = not pin and rng.random() < 0.5
    if comma:
        s += ","
    term = rng.choice(TERM[:9]) if pin else rng.choice([" Further text.", " and further."] if comma else [". Further text.", " and further.", ".",
                                                         # closing a parenthesis or quotation: several punctuation marks at once
                                                         ".) Further text.", "). Further.", ".\" Further.", ".\u201d) And more.", "));"])
    par = term[2:-2] if term.startswith(" (") else None
    s += term
    cluster = len(term) - len(term.lstrip(".,;:)\"\u201d")) if not pin and not comma else 0
    case = dict(text=s, form="supra")
    rec.count("form:supra")
    c = one(s, SupraCitation, rec, case)
    if not c:
        return
    if c.span()[0] != st or (pin and c.span()[1] != en):
        return fail(rec, "supra_span", case, observed=c.span(), expected=(st, en))
    if not pin and cluster > 1:
        # the token takes the punctuation glued to the word
        if not (st + 5 <= c.span()[1] <= st + 5 + cluster):
            return fail(rec, "supra_span", case, observed=c.span(), expected=(st, st + 5))
        rec.count("supra_punctuation_clusters")
    elif not pin and not (st + 5 <= c.span()[1] <= st + 6 and not s[st + 5:c.span()[1]].strip(",.;")):
        return fail(rec, "supra_span", case, observed=c.span(), expected=(st, st + 5))
    if (c.metadata.pin_cite or None) != (f"at {pin}" if pin else None):
        return fail(rec, "supra_pin_cite", case, observed=c.metadata.pin_cite, expected=pin)
    if pin:
        rec.count("pin_cites_checked")
    if c.metadata.antecedent_guess != name:
        return fail(rec, "supra_antecedent", case, observed=c.metadata.antecedent_guess, expected=name)
    if c.metadata.volume != (str(vol) if vol else None):
        return fail(rec, "supra_volume", case, observed=c.metadata.volume, expected=vol)
    if c.metadata.parenthetical != par:
        return fail(rec, "supra_parenthetical", case, observed=c.metadata.parenthetical, expected=par)
    if c.full_span()[0] != len(lead):
        return fail(rec, "supra_full_span_start", case, observed=c.full_span(), expected=len(lead))


def check_id(rng, rec):
    from eyecite.models import IdCitation
    p = rng.randint(1, 1500)
    pin = pin_simple(rng, p) if rng.random() < 0.7 else None
    tk = rng.choice(["Id.", "id.", "Ibid.", "Id.,"])
    if tk == "Ibid.":
        pin = None
    lead = rng.choice(["", "The court agreed. ", '"quoted." ', "See "])
    s = lead
    st = len(s)
    s += tk
    if pin:
        s += f" at {pin}"
    en = len(s)
    term = rng.choice(TERM[:9]) if pin else rng.choice([" Further text.", " (noting lekfen)."])
    par = term[2:-2] if term.startswith(" (") else None
    s += term
    case = dict(text=s, form="id")
    rec.count("form:id")
    c = one(s, IdCitation, rec, case)
    if not c:
        return
    if c.span()[0] != st or (pin and c.span()[1] != en) or (not pin and c.span()[1] != st + len(tk)):
        return fail(rec, "id_span", case, observed=c.span(), expected=(st, en))
    if (c.metadata.pin_cite or None) != (f"at {pin}" if pin else None):
        return fail(rec, "id_pin_cite", case, observed=c.metadata.pin_cite, expected=pin)
    if pin:
        rec.count("pin_cites_checked")
    if c.metadata.parenthetical != par:
        return fail(rec, "id_parenthetical", case, observed=c.metadata.parenthetical, expected=par)


def check_journal(rng, rec):
    from eyecite.models import FullJournalCitation
    j = rng.choice(gen.DB.journals)
    vol, p = rng.randint(1, 150), rng.randint(1, 2000)
    pin = pin_simple(rng, p) if rng.random() < 0.5 else None
    year = rng.randint(1900, 2020) if rng.random() < 0.7 else None
    par = rng.choice(["discussing " + gen.word(rng).lower(), gen.paren(rng)]) if (year and rng.random() < 0.4) else None
    lead = rng.choice(["", "See ", "Cf. Note, "])
    s = lead
    st = len(s)
    s += f"{vol} {j} {p}"
    en = len(s)
    if pin:
        s += f", {pin}"
    if year:
        s += f" ({year})"
    if par:
        s += f" ({par})"
    ce = len(s)
    s += rng.choice([". Further.", "; rest.", "."])
    case = dict(text=s, form="journal")
    rec.count("form:journal")
    c = one(s, FullJournalCitation, rec, case)
    if not c:
        return
    if c.span() != (st, en):
        return fail(rec, "journal_span", case, observed=c.span(), expected=(st, en))
    if (c.groups["volume"], c.groups["reporter"], c.groups["page"]) != (str(vol), j, str(p)):
        return fail(rec, "journal_groups", case, observed=c.groups)
    if c.metadata.pin_cite != pin:
        return fail(rec, "journal_pin_cite", case, observed=c.metadata.pin_cite, expected=pin)
    if pin:
        rec.count("pin_cites_checked")
    if c.metadata.year != (str(year) if year else None) or c.year != year:
        return fail(rec, "journal_year", case, observed=(c.metadata.year, c.year), expected=year)
    if c.metadata.parenthetical != par:
        return fail(rec, "journal_parenthetical", case, observed=c.metadata.parenthetical, expected=par)
    fs = c.full_span()
    if fs[0] != st or not (ce <= fs[1] and s[ce:fs[1]].strip() == ""):
        return fail(rec, "journal_full_span", case, observed=fs, expected=(st, ce))


def check_law(rng, rec):
    from eyecite.models import FullLawCitation
    e = rng.choice(gen.DB.law_extractors)
    body, rx = inner_of(e)
    if rx is None:
        return
    for _ in range(20):
        try:
            core = sample(body, rng, e.flags, maxrep=2)
        except Exception:
            return
        if rx.fullmatch(core) and "\n" not in core:
            break
    else:
        return
    gt = rx.fullmatch(core).groupdict()
    pub = rng.choice([None, "West", "Lexis Supp.", "Supp."])
    year = rng.randint(1900, 2020) if (pub or rng.random() < 0.5) else None
    par = rng.choice(["repealed", "repealed in part in 1995", gen.paren(rng)]) if rng.random() < 0.3 else None
    lead = rng.choice(["", "See ", "under "])
    s = lead
    st = len(s)
    s += core
    en = len(s)
    if pub or year:
        s += " (" + " ".join(x for x in (pub, str(year) if year else None) if x) + ")"
    if par:
        s += f" ({par})"
    ce = len(s)
    s += rng.choice([". Further.", "; rest.", "."])
    # precondition: the intended pattern itself matches exactly the written core in this context
    ms = [m for m in e.compiled_regex.finditer(s)]
    if len(ms) != 1 or ms[0].span(1) != (st, en):
        rec.count("law_core_not_matched_as_written_skipped")
        return
    case = dict(text=s, form="law")
    rec.count("form:law")
    c = one(s, FullLawCitation, rec, case)
    if not c:
        return
    if c.span() != (st, en):
        if other_structures(core, e):
            rec.count("second_pattern_tie")
            return
        return fail(rec, "law_span", case, observed=c.span(), expected=(st, en))
    for k in ("volume", "reporter", "page", "section", "chapter", "title", "law_section"):
        if k in gt and c.groups.get(k) != gt[k] and not (k == "page" and gt[k] and set(gt[k]) == {"_"}):
            if other_structures(core, e):
                rec.count("second_pattern_tie")
                return
            return fail(rec, "law_groups", case, observed=(k, c.groups.get(k)), expected=gt[k])
    if c.metadata.year != (str(year) if year else None):
        return fail(rec, "law_year", case, observed=c.metadata.year, expected=year)
    if c.metadata.parenthetical != par:
        return fail(rec, "law_parenthetical", case, observed=c.metadata.parenthetical, expected=par)
    fs = c.full_span()
    if fs[0] != st or not (ce <= fs[1] and s[ce:fs[1]].strip() == ""):
        return fail(rec, "law_full_span", case, observed=fs, expected=(st, ce))


def check_bare_pair(rng, rec):
    """Two adjacent full case citations written without party names (string cites): each keeps its own
    year, court and pin cite; neither is the other's parallel citation."""
    from eyecite.models import FullCaseCitation
    reps = [rng.choice(gen.DB.std) for _ in range(2)]
    vols = [rng.randint(1, 999) for _ in range(2)]
    pages = [rng.randint(1, 1500) for _ in range(2)]
    years = [rng.randint(1700, gen.YEARNOW), rng.choice([None, rng.randint(1700, gen.YEARNOW)])]
    if years[1] == years[0]:
        years[1] = None
    pins = [gen.pinshape(rng, pages[k]) if rng.random() < 0.3 else None for k in range(2)]
    s = rng.choice(["See ", "Compare ", "", "See, e.g., ", "Accord "])
    spans = []
    for k in range(2):
        st = len(s)
        s += f"{vols[k]} {reps[k]} {pages[k]}"
        spans.append((st, len(s)))
        if pins[k]:
            s += ", " + pins[k]
        if years[k]:
            s += f" ({years[k]})"
        if k == 0:
            s += rng.choice(["; ", "; see also ", ". See also ", " and "])
    s += rng.choice([".", ". Further text.", "; the rest."])
    # does a backward scan from the second citation reach a stop word in front of the first one without
    # meeting ';' or a stop word in between? (then the two get the same full-span start)
    shared_lead = bool(re.match(r"(?i)see\b", s)) and not re.search(r";|\bsee\b|\bSee\b", s[spans[0][1]:spans[1][0]])
    case = dict(text=s, form="bare_pair", stop_word_before_first_and_none_between=shared_lead)
    rec.count("form:bare_pair")
    cs = extract(s, rec, case)
    if cs is None:
        return
    rec.ev()
    rec.nontrivial(s)
    cs = [c for c in cs if isinstance(c, FullCaseCitation)]
    if [c.span() for c in cs] != spans:
        if any(other_structures_str(f"{vols[k]} {reps[k]} {pages[k]}", str(vols[k]), reps[k], str(pages[k])) for k in range(2)):
            rec.count("second_pattern_tie")
            return
        return fail(rec, "bare_pair_spans", case, observed=[c.span() for c in cs], expected=spans)
    for k, c in enumerate(cs):
        if c.metadata.year != (str(years[k]) if years[k] else None):
            return fail(rec, "bare_pair_year", case, observed=(k, c.metadata.year, c.year), expected=years[k])
        if c.metadata.pin_cite != pins[k]:
            return fail(rec, "bare_pair_pin_cite", case, observed=(k, c.metadata.pin_cite), expected=pins[k])


def other_structures_str(core, vol, rep, page):
    for o in gen.DB.cit_extractors:
        if o.strings and not any(x in core for x in o.strings):
            continue
        rx = inner_of(o)[1]
        m = rx.fullmatch(core) if rx is not None else None
        if m and ((m.groupdict().get("volume"), m.groupdict().get("reporter"), m.groupdict().get("page")) != (vol, rep, page)
                  or set(m.groupdict()) != {"volume", "reporter", "page"} or o.extra["short"]):
            return True
    return False


def probe_known(rec):
    """Deterministic witness of the open known finding (printed as KNOWN-FINDING while it is present)."""
    from eyecite.models import FullCaseCitation
    s = "Foo v. Bar, 1 U.S. 1, 394 App.Div.(N.Y.) 250 (1922)."
    case = dict(text=s, form="full", parallel_reporter="App.Div.(N.Y.)")
    cs = extract(s, rec, case)
    if cs and isinstance(cs[0], FullCaseCitation) and cs[0].metadata.year != "1922":
        rec.violation("C01.full_year", case, observed=(cs[0].metadata.year, cs[0].year), expected=1922)
    s = "See 1 U.S. 340 (1926) and 2 F.2d 327 (1967)."
    case = dict(text=s, form="bare_pair", stop_word_before_first_and_none_between=True)
    cs = [c for c in (extract(s, rec, case) or []) if isinstance(c, FullCaseCitation)]
    if len(cs) == 2 and cs[1].metadata.year != "1967":
        rec.violation("C01.bare_pair_year", case, observed=(1, cs[1].metadata.year, cs[1].year), expected=1967)
    from eyecite.models import IdCitation
    s = "Foo v. Bar, 1 U.S. 1 (1999). Id. at 5 (citing Smith)."
    case = dict(text=s, form="id")
    cs = [c for c in (extract(s, rec, case) or []) if isinstance(c, IdCitation)]
    if cs and cs[0].metadata.parenthetical != "citing Smith":
        rec.violation("C01.id_parenthetical", case, observed=cs[0].metadata.parenthetical, expected="citing Smith")


def run_shard(spec, rec):
    instrument.install(rec, what=())
    rng = random.Random(spec["seed"])
    if spec["i"] == 0:
        probe_known(rec)
    rec.count("extractors_total", len(gen.DB.cit_extractors) if spec["i"] == 0 else 0)
    run_minimal(spec, rec, rng)
    run_literals(spec, rec, rng)
    run_law_literals(spec, rec, rng)
    run_db_members(spec, rec, rng)
    run_examples(spec, rec, rng)
    rec.c01_tag = None
    run_courts(spec, rec, rng)
    for k in range(spec["n"]):
        forms = ["check_full"] + (["check_short", "check_supra", "check_id", "check_journal", "check_law",
                                   "check_antecedent_full", "check_scenario_doc", "check_bare_pair"] if k % 2 == 0 else [])
        for fn in forms:
            tag = f"{spec['seed']}-{k}-{fn}"
            rec.c01_tag = (fn, tag)          # lets --replay regenerate exactly this case
            globals()[fn](random.Random(tag), rec)
    rec.c01_tag = None


def replay(w, rec):
    from eyecite import get_citations
    c = w["case"]
    if c.get("replay_form") in globals() and c.get("replay_rng"):
        # regenerate the identical case (same seeded generator) and judge it again
        globals()[c["replay_form"]](random.Random(c["replay_rng"]), rec)
        return
    t = c["text"]
    rec.note("re-extraction of witness text: " + repr([(M.kind(x), x.span(), x.full_span(), x.groups, x.metadata) for x in get_citations(t)])[:1500])
    if "origin" in c and "core" in c and ("law" in c["origin"] or "db" in c["origin"]):
        return
    if "origin" in c and "core" in c:
        o = c["origin"]
        if "extractor" in o and o["extractor"] < len(gen.DB.cit_extractors):
            minimal_form(gen.DB.cit_extractors[o["extractor"]], c["core"], random.Random(0), rec, o)
