"""C08 Resolution is online: later citations never change earlier
groupings."""
import random

from vmon import gen
from vmon import monitors as M
from vmon.props import _resolve as R

LEVEL = "exploration"
LMAX = {"quick": 3, "thorough": 5}
SHARDS = {"quick": 8, "thorough": 14}
NDOC = {"quick": 300, "thorough": 15000}
EXHAUSTIVE = {"quick": True, "thorough": True}
RULE = ("two focus alphabets (short-form disambiguation: 10 kinds; id./placeholder/roman/nominative pages: 14 kinds) enumerated to length 4 (quick) / 5 (thorough); EXHAUSTIVE over all sequences of length <= L (L=3 quick, 5 thorough) over the 21-kind alphabet of "
        "C06, every prefix of each re-resolved with the real resolve_citations and compared with the "
        "restriction of the full resolution (resources by == and hash, members by identity and order); plus "
        "random sequences of length 4..9 over 45 kinds and all prefixes of lists extracted from generated "
        "documents; also: no non-full citation grouped under a resource whose first full member occurs later; "
        "non-trivial = (list, cut) pair with a non-empty prefix; distinct = distinct kind sequence / document")
ASSUMPTIONS = ["exhaustive for the stated alphabet and bound only"]
FLOORS = {"quick": {"sequences": R.n_sequences(3), "focus_sequences": R.n_focus_sequences(3), "prefix_pairs": 20000, "extracted_lists": 400, "long_lists": 10, "battery_rechecked": 10000},
          "thorough": {"sequences": R.n_sequences(5), "focus_sequences": R.n_focus_sequences(5), "prefix_pairs": 15000000, "extracted_lists": 20000}}


def plan(tier, seed):
    n = SHARDS[tier]
    return [dict(i=i, nshards=n, lmax=LMAX[tier], ndoc=NDOC[tier], seed=seed * 1000 + i) for i in range(n)]


def classify(v):
    return None


def check_seq(seq, case, rec, resolve):
    try:
        res = resolve(seq)
    except Exception as e:
        rec.count("resolve_raised:" + type(e).__name__)
        return None
    rec.ev()
    R.check_c08(seq, res, lambda mon, obs: rec.violation(mon, case, observed=dict(obs, list=R.describe(seq)[:12])),
                resolve, stats=rec.count)
    return res


def protos_all():
    import eyecite.resolve as ER
    protos = R.build_protos(extra=True)
    protos.update(R.dynamic_id_kinds(protos, ER.MAX_OPINION_PAGE_COUNT))
    return protos


def run_shard(spec, rec):
    from eyecite import get_citations, resolve_citations

    protos = protos_all()
    # history: a battery of short sequences resolved FIRST in this process and again at the very end; the
    # whole list is its own longest prefix, so its resolution may not depend on what was resolved before
    import itertools
    battery = [c for n in (1, 2) for c in itertools.product(list(protos), repeat=n)]
    battery += [c for c in itertools.product(R.FOCUS["reference"], repeat=3)][spec["i"]::spec["nshards"]]
    battery += [c for c in itertools.product(R.FOCUS["antecedent"], repeat=3)][spec["i"]::spec["nshards"]]

    def shape(combo):
        seq = R.instantiate(protos, combo)
        pos = {id(c): i for i, c in enumerate(seq)}
        try:
            return [g[1] for g in R.canon(resolve_citations(seq), pos)]
        except Exception as e:
            return "raised " + type(e).__name__
    first_shapes = {combo: shape(combo) for combo in battery}
    for combo in R.sequences(spec["lmax"], spec["i"], spec["nshards"]):
        check_seq(R.instantiate(protos, combo), dict(sequence=list(combo)), rec, resolve_citations)
        rec.count("sequences")
        if len(combo) > 1:
            rec.nontrivial(combo)
    for combo in R.focus_sequences(spec["lmax"], spec["i"], spec["nshards"]):
        check_seq(R.instantiate(protos, combo), dict(sequence=list(combo)), rec, resolve_citations)
        rec.count("focus_sequences")
        rec.nontrivial(combo)
    for combo in R.collision_sequences(random.Random(spec["seed"] + 57), 400):
        check_seq(R.instantiate(protos, combo), dict(sequence=list(combo)), rec, resolve_citations)
        rec.count("collision_sequences")
        rec.nontrivial(combo)
    rng = random.Random(spec["seed"])
    allk = list(protos)
    for _ in range(spec["ndoc"]):
        combo = [rng.choice(allk) for _ in range(rng.randint(4, 9))]
        check_seq(R.instantiate(protos, combo), dict(sequence=combo), rec, resolve_citations)
        rec.count("random_sequences")
        rec.nontrivial(combo)
        if len(rec.samples) < 2:
            rec.sample(dict(sequence=combo))
    for combo in R.long_lists(protos, rng, 2):
        seq = R.instantiate(protos, combo)
        try:
            res = resolve_citations(seq)
        except Exception as e:
            rec.count("resolve_raised:" + type(e).__name__)
            continue
        rec.ev()
        rec.count("long_lists")
        # prefixes at selected cuts only (the full sweep is quadratic)
        pos = {id(c): i for i, c in enumerate(seq)}
        for k in sorted(set([1, 2, 3, 5, 8, 13, 21, 50, 100, 299, 300, 301, len(seq) - 1] + [rng.randrange(len(seq)) for _ in range(6)])):
            if k >= len(seq):
                continue
            got, want = R.canon(resolve_citations(seq[:k]), pos), R.canon(res, pos, upto=k)
            rec.count("prefix_pairs")
            if len(got) != len(want) or any(g[1] != w[1] or not (g[2] == w[2]) for g, w in zip(got, want)):
                rec.violation("C08.prefix_differs", dict(sequence=list(combo)),
                              observed=dict(cut=k, prefix=[g[1] for g in got][:8], restriction=[w[1] for w in want][:8]))
                break
    for k in range(spec["ndoc"]):
        text = R.resolution_doc(rng) if k % 4 else gen.dense_doc(rng, hostile=0.2)
        try:
            cs = get_citations(text)
        except Exception:
            continue
        if len(cs) > 40:
            cs = cs[:40]
        if check_seq(cs, dict(text=text), rec, resolve_citations) is not None:
            rec.count("extracted_lists")
            rec.nontrivial(text)
            if len(rec.samples) < 4 and len(cs) > 4:
                rec.sample(dict(text=text, kinds=[M.kind(c) for c in cs]))
    recheck_battery(battery, first_shapes, shape, rec)


def recheck_battery(battery, first_shapes, shape, rec):
    for combo in battery:
        rec.count("battery_rechecked")
        again = shape(combo)
        if again != first_shapes[combo]:
            rec.violation("C08.depends_on_history", dict(sequence=list(combo), history="battery first, then the whole shard"),
                          observed=again, expected=first_shapes[combo])


def replay(w, rec):
    from eyecite import get_citations, resolve_citations
    protos = protos_all()
    c = w["case"]
    if "history" in c:
        # the witness needs a history: resolve it first, then every sequence of length <= 3 over the two
        # name-collision alphabets, then again
        import itertools

        def shape(combo):
            seq = R.instantiate(protos, combo)
            pos = {id(x): i for i, x in enumerate(seq)}
            return [g[1] for g in R.canon(resolve_citations(seq), pos)]
        first = shape(c["sequence"])
        for kinds in (R.FOCUS["reference"], R.FOCUS["antecedent"]):
            for n in (2, 3):
                for combo in itertools.product(kinds, repeat=n):
                    try:
                        resolve_citations(R.instantiate(protos, combo))
                    except Exception:
                        pass
        again = shape(c["sequence"])
        if again != first:
            rec.violation("C08.depends_on_history", c, observed=again, expected=first)
    elif "sequence" in c:
        check_seq(R.instantiate(protos, c["sequence"]), c, rec, resolve_citations)
    else:
        check_seq(get_citations(c["text"])[:40], c, rec, resolve_citations)
