"""C14 The Hyperscan tokenizer is a drop-in replacement for the default one;
its optional cache is harmless.

Clauses
 (a) every candidate of Tokenizer.extract_tokens is reported by
     HyperscanTokenizer.extract_tokens (type, offsets, text, groups, editions)
 (b) every additional Hyperscan candidate is a genuine match of its pattern
     at those offsets w.r.t. the real text boundaries
 (c) equal candidate sets without same-span ties => equal get_citations results
 (d) any cache state: same tokens as without cache, no exception, no dead
     process (fault cases run in a worker interpreter with a journal)
"""
import json
import os
import random
import shutil
import subprocess
import sys

from vmon import core, gen, instrument, tok
from vmon import monitors as M

LEVEL = "fault_enumeration"
RULE = ("(a)-(c): generated legal text with multi-byte characters (curly quotes, dashes, accented letters, "
        "section/paragraph signs, astral characters) before, after, between and inside citations, restricted "
        "to the stated domain (no non-ASCII whitespace/digits, none of ſ ı İ K), compared candidate-by-candidate "
        "and citation-by-citation between the reference and the Hyperscan tokenizer; (d): fault cases applied to "
        "a freshly written cache file of a small (11-extractor) database - truncation at every 1/400th length "
        "(quick) / every length of a 2-extractor database (thorough), every bit of the first 64 header bytes, "
        "body byte overwrites, garbage, appended bytes, empty file, version-field edits, crash during the "
        "non-atomic write at several lengths, cache dir absent/file-in-the-way, concurrent first construction - "
        "and length classes / header flips / body overwrites of the full 40 MB database; each fault is followed "
        "by two constructions (recover, then reuse); non-trivial = a fault case that changed the file, or a "
        "document with >= 1 multi-byte neighbour of a citation; distinct = distinct fault descriptor / text")
ASSUMPTIONS = ["fault cases run in a worker interpreter; a dead worker is a violation witness for the fault in "
               "its journal, never a hang (subprocess timeout)",
               "texts outside the stated domain are filtered by predicate on the text (they are C04's)"]
FLOORS = {"quick": {"docs_compared": 500, "docs_with_multibyte_neighbour": 300, "ref_candidates": 3000,
                    "citation_level_compared": 150, "pattern_members_compared": 25000,
                    "fault_cases": 300, "fault:truncate": 100, "fault:bitflip_header": 100,
                    "fault:byte_body": 30, "fault:garbage": 5, "fault:append": 5, "fault:empty": 1,
                    "fault:version_field": 4, "fault:crash_during_write": 5, "fault:dir_state": 2,
                    "fault:full_db": 6, "fault:cache_filled_by_variant": 3, "faults_forcing_recompile": 100, "faults_loaded_from_cache": 20},
          "thorough": {"docs_compared": 15000, "docs_with_multibyte_neighbour": 9000,
                       "fault_cases": 20000, "fault:truncate": 15000, "fault:full_db": 40}}
NDOC = {"quick": 110, "thorough": 2500}
SHARDS = {"quick": 8, "thorough": 14}
MB = ["“", "”", "’", "—", "é", "ü", "§", "¶", "…", "™", "\U00010000", "ñ", "–", "\ud83d", "\udc00"]
# punctuation whose UTF-8 form contains every continuation byte value 0x80-0xBF at least once (a byte-level
# operation that singles out one byte value - 0x85, 0xA0 - hits some of these and no ASCII text):
# U+2010-U+2027 and U+2030-U+203E are E2 80 90..BE, U+00A1-U+00BF are C2 A1..BF, U+2190-U+21BF are E2 86 90..BF
CONT = [chr(c) for c in list(range(0x2010, 0x2028)) + list(range(0x2030, 0x203F)) + list(range(0xA1, 0xC0))
        + list(range(0x2190, 0x21C0)) + list(range(0x2580, 0x25C0))
        if not chr(c).isalnum() and not chr(c).isspace() and not chr(c).isdigit() and not chr(c).isnumeric()]
FR = ["Foo v. Bar, 1 U.S. 1 (1999)", "2 F.2d 3, 5", "Id. at 5", "Foo, supra, at 3", "Mass. Gen. Laws ch. 1, § 2",
      "42 U.S.C. § 1983", "1 Minn. L. Rev. 1", "see also", "Roe, 410 U.S. at 120", "In re Gault",
      "Bankr. L. Rep. (CCH) ¶12,345", "Ibid.", "§§ 1-2", "cert. denied", "1 Thompson 5", "T.C. Memo. 2019-233",
      "Peña v. Doe, 5 Cal. 4th 6", "Shapiro v. Thompson, 394 U. S. 618", "2 P.R. 3 (1831)", "1 Wash. 1",
      "supra,§,", "1 CCH Unemployment Ins. Rep. 1", "550 U.S., at 556", "3 Cranch 137"]
PROBES = ["See Pub. L. No. 94-553 §§ 1-2 and more.", "Halper v. Taney, 1999; Taney ___ (1999)",
          "1 CCH Unemployment Ins. Rep. 1\n1 CCH Unemployment Ins. Rep. 1\n", "“1 U.S. 1”", "é1 U.S. 1", "1 U.S. 1é", "see—Id. at 5—ok", "1 U.S. 1 “ 2 F.2d 3", "x § 5 y", "¶12,345",
          "See 1 U.S. (1 Dall§) 5 and", "585 U.S. ___ (2018)", "585 U.S. __a", "585 U.S. ___3 and", "Pub. L. 111-148 was enacted", "see §5x and"]


def plan(tier, seed):
    n = SHARDS[tier]
    specs = [dict(i=i, nshards=n, ndoc=NDOC[tier], seed=seed * 1000 + i, part="compare", probes=(i == 0),
                  cover=(24 if tier == "quick" else 80))
             for i in range(n)]
    specs += [dict(i=i, nshards=n, seed=seed * 1000 + 100 + i, part="faults", tier=tier) for i in range(n)]
    specs += [dict(i=i, nshards=4, seed=seed * 1000 + 200 + i, part="fullfaults", tier=tier) for i in range(4)]
    return specs


def prepare(tier, seed, workdir):
    tok.prebuild_hs()


def classify(v):
    if v.get("monitor") == "C14.missing_in_hyperscan":
        o = v.get("observed") or {}
        if o.get("pattern_has_multibyte_in_class") and "§" in ((o.get("token") or {}).get("data") or ""):
            return "multibyte-char-in-character-class"
        if o.get("any_character_element_took_multibyte"):
            return "any-character-element-takes-multibyte-character"
        if o.get("hyperscan_has_longer_match_with_same_end"):
            return "leftmost-start-reporting"
        if o.get("touches_multibyte"):
            return "hyperscan-multibyte-adjacent"
    if v.get("monitor") == "C14.citations_differ":
        return None
    return None


# ---------------------------------------------------------------- (a)-(c)

def edge_fragment(rng):
    """Matches whose pattern tail can also take the character that should be their boundary: placeholder
    pages ('_' is a page character and a legal boundary), patterns ending in optional white space or in a
    greedy class."""
    k = rng.random()
    if k < 0.5:
        return (f"{gen.num(rng)} {gen.rep(rng)} {'_' * rng.randint(1, 4)}"
                + rng.choice(["", " (2018)", "a", "3", "_x", ")", ";", " ", "_ ", ", 5"]))
    if k < 0.62:
        return rng.choice(["Pub. L. 111-148 was", "Pub. L. No. 94-553  and", "§5x", "§§ 5x-6", "x§5", "Id.,at 5", "supra,at"])
    if k < 0.8:
        # a keyword with runs of punctuation (ASCII and multi-byte, 0-6 characters) glued to both sides: bounds
        # counted in characters by one engine and in bytes by the other differ exactly here
        marks = ["\u201c", "\u201d", "\u2019", "\u2014", "\u2026", "(", ")", ".", ",", ";", "\"", "'", "*", "-"] + rng.sample(CONT, 6)
        run = lambda: "".join(rng.choice(marks) for _ in range(rng.randint(0, 6)))  # noqa
        kw = rng.choice(["supra", "see", "Id.", "denied", "citing", "v.", "affirmed", "ibid.", "See also"])
        return f"Foo, {run()}{kw}{run()} at 5"
    return gen.member(rng) + rng.choice(["_", "__ ", " _", "a", "1", " 1", ""])


def doc(rng):
    out = []
    for _ in range(rng.randint(1, 6)):
        r0 = rng.random()
        f = edge_fragment(rng) if r0 < 0.12 else rng.choice(FR) if r0 < 0.7 else gen.frag(rng)
        r = rng.random()
        if rng.random() < 0.25:
            f = f + rng.choice(CONT) if rng.random() < 0.5 else rng.choice(CONT) + f
        if r < 0.3:
            f = rng.choice(MB) + f
        if 0.2 < r < 0.5:
            f = f + rng.choice(MB)
        if r > 0.8 and f:
            i = rng.randrange(len(f))
            f = f[:i] + rng.choice(MB) + f[i:]
        out.append(f)
        out.append(rng.choice([" ", ". ", "; ", ", ", "\n", "", " " + rng.choice(MB) + " "]))
    return "".join(out)


def tkey(t):
    return json.dumps(M.ser_token(t), sort_keys=True, default=str)


WRAPPERS = [("(?:^|[^a-zA-Z0-9])(", ")(?:[^a-zA-Z0-9]|$)", r"[^a-zA-Z0-9]"),
            (r"(?:^|\s)(", r")(?:\s|$)", r"\s")]
_body_cache = {}


def split_regex(e):
    """(compiled body, compiled boundary class) for the boundary-wrapped
    extractor shapes; (None, None) for any other shape."""
    import re
    k = id(e)
    if k not in _body_cache:
        r = (None, None)
        for pre, post, cls in WRAPPERS:
            if e.regex.startswith(pre) and e.regex.endswith(post):
                try:
                    r = (re.compile(e.regex[len(pre):-len(post)], e.flags), re.compile(cls))
                except re.error:
                    r = (None, None)
                break
        _body_cache[k] = r
    return _body_cache[k]


def genuine(text, t, extractors):
    """Is token t a real match of one of `extractors` at exactly its offsets,
    with ^ and $ referring to the real ends of `text`? Decided structurally:
    left boundary, body (group 1) and right boundary are checked separately, so
    the answer does not depend on which of several matches a backtracking
    engine prefers."""
    n = len(text)
    for e in extractors:
        body, cls = split_regex(e)
        if body is None:
            # shape without boundary groups (section sign, paragraph) or unknown
            m = e.compiled_regex.fullmatch(text, t.start, t.end)
            if m and m.span(1) == (t.start, t.end):
                return True
            for a0 in {max(t.start - 1, 0), t.start}:
                for b1 in {min(t.end + 1, n), t.end}:
                    m = e.compiled_regex.fullmatch(text, a0, b1)
                    if m and m.span(1) == (t.start, t.end) and (b1 == n or m.end(1) < b1 or not e.regex.endswith("|$)")):
                        return True
            continue
        left_ok = t.start == 0 or bool(cls.fullmatch(text[t.start - 1]))
        right_ok = t.end == n or text[t.end:] == "\n" or bool(cls.fullmatch(text[t.end]))
        if left_ok and right_ok and body.fullmatch(text, t.start, t.end):
            return True
    return False


_CLASS = None


def multibyte_class_pattern(text, t, by_type):
    """Mechanism of an open known finding: the pattern that produced this reference token contains a
    non-ASCII character inside a character class ('[§|s]' in the two Pub. L. patterns of reporters-db),
    which a byte-oriented engine reads as a class of that character's single bytes."""
    import re
    global _CLASS
    if _CLASS is None:
        _CLASS = re.compile(r"(?<!\\)\[(?!\^)((?:\\.|[^\]\\])*)\]")
    for e in by_type.get(type(t).__name__, []):
        body, cls = split_regex(e)
        if body is None or not body.fullmatch(text, t.start, t.end):
            continue
        if any(any(ord(ch) > 127 for ch in m.group(1)) for m in _CLASS.finditer(e.regex)):
            return True
    return False


def wildcard_took_multibyte(text, t, by_type):
    """Mechanism of an open known finding: a non-ASCII character inside this reference token was matched by an
    "any character" element of its pattern ('Dall.' with an unescaped dot in a reporters-db alternation
    taking '§'). Then replacing it by another non-ASCII character of a different byte length, or by an
    ASCII letter, leaves the match intact. A byte-oriented engine lets such an element take ONE byte."""
    idx = [i for i in range(t.start, t.end) if ord(text[i]) > 127]
    if not idx:
        return False
    for e in by_type.get(type(t).__name__, []):
        body, cls = split_regex(e)
        if body is None or not body.fullmatch(text, t.start, t.end):
            continue
        for i in idx:
            other = "\u20ac" if text[i] != "\u20ac" else "\u2030"
            # ... and by an ASCII letter: a dot (or a class like [^)]) takes anything, a punctuation class
            # such as [^\sa-zA-Z0-9] does not take a letter and is no "any character" element
            if body.fullmatch(text[:i] + other + text[i + 1:], t.start, t.end) \
                    and body.fullmatch(text[:i] + "a" + text[i + 1:], t.start, t.end):
                return True
    return False


def compare_doc(text, rec, ref, hs, by_type):
    from eyecite import get_citations
    if not gen.ascii_ws_domain(text):
        rec.count("outside_domain_skipped")
        return
    case = dict(text=text)
    try:
        R = {tkey(x): x for x in ref.extract_tokens(text)}
    except Exception as e:
        rec.count("reference_raised:" + type(e).__name__)
        return
    try:
        H = {tkey(x): x for x in hs.extract_tokens(text)}
    except Exception as e:
        rec.violation("C14.hyperscan_raised." + type(e).__name__, case, observed=str(e)[:200])
        return
    rec.ev()
    rec.count("docs_compared")
    rec.count("ref_candidates", len(R))
    mb_neighbour = False
    for k, x in R.items():
        lo, hi = max(x.start - 1, 0), min(x.end + 1, len(text))
        touches = any(ord(c) > 127 for c in text[lo:x.start] + text[x.end:hi])
        mb_neighbour = mb_neighbour or touches
        if k not in H and any((ord(c) > 127 and c.isalnum()) or 0xD800 <= ord(c) <= 0xDFFF for c in str(x)):
            # the candidate itself contains a non-ASCII letter/digit that a unicode-aware \w or \d of its
            # pattern matched ('1999 N.Y.S.2d at 2004\U00010000'): Python's classes and Hyperscan's byte
            # classes do not coincide on this text for this pattern - outside the property's domain
            rec.count("candidate_outside_domain_skipped")
            continue
        if k not in H:
            twin = any(type(y) is type(x) and y.end == x.end and y.start < x.start
                       and str(y) == text[y.start:x.end] for y in H.values())
            rec.violation("C14.missing_in_hyperscan", case,
                          observed=dict(token=M.ser_token(x), touches_multibyte=touches,
                                        any_character_element_took_multibyte=wildcard_took_multibyte(text, x, by_type),
                                        hyperscan_has_longer_match_with_same_end=twin,
                                        pattern_has_multibyte_in_class=multibyte_class_pattern(text, x, by_type),
                                        context=text[max(0, x.start - 3):x.end + 3]))
    if mb_neighbour:
        rec.count("docs_with_multibyte_neighbour")
        rec.nontrivial(text)
    for k, x in H.items():
        if k in R:
            continue
        rec.count("extras_seen")
        cands = by_type.get(type(x).__name__, [])
        if genuine(text, x, cands):
            rec.count("extras_validated")
        else:
            rec.violation("C14.extra_not_genuine", case, observed=dict(token=M.ser_token(x)))
    if set(R) == set(H):
        spans = {}
        for x in R.values():
            spans.setdefault((x.start, x.end), set()).add(tkey(x))
        if all(len(v) == 1 for v in spans.values()):
            try:
                a = [M.ser(c) for c in get_citations(text, tokenizer=ref)]
                b = [M.ser(c) for c in get_citations(text, tokenizer=hs)]
            except Exception as e:
                rec.count("get_citations_raised:" + type(e).__name__)
                return
            rec.count("citation_level_compared")
            if a != b:
                rec.violation("C14.citations_differ", case,
                              observed=[(x["kind"], x["span"]) for x in b][:12],
                              expected=[(x["kind"], x["span"]) for x in a][:12])
        else:
            rec.count("same_span_ties_skipped")
    if len(rec.samples) < 3 and mb_neighbour:
        rec.sample(dict(text=text, reference_candidates=len(R), hyperscan_candidates=len(H)))


def run_compare(spec, rec):
    from eyecite.tokenizers import EXTRACTORS
    rng = random.Random(spec["seed"])
    ref, hs = tok.get("ref"), tok.get("hs")
    by_type = {}
    probe = {}
    for e in EXTRACTORS:
        name = getattr(e.constructor, "__self__", None)
        by_type.setdefault(name.__name__ if name else "?", []).append(e)
    if spec.get("probes"):
        for p in PROBES:
            compare_doc(p, rec, ref, hs, by_type)
    for _ in range(spec["ndoc"]):
        compare_doc(doc(rng), rec, ref, hs, by_type)
    # W1: every extractor pattern of the database (sharded): the candidates the pattern itself finds in
    # one of its members must be among Hyperscan's candidates (clause (a) restricted to one pattern, which
    # is cheap enough to be database-exhaustive; pattern conversion errors hide in rare templates)
    from vmon.rxgen import cover
    for idx, e in enumerate(EXTRACTORS):
        if idx % spec["nshards"] != spec["i"]:
            continue
        # wildcards and negated classes of the pattern are filled with ASCII only: a multi-byte
        # character matched by '.' or [^...] is one *byte* for a byte-oriented engine, i.e. the
        # engines' classes do not coincide on such a token (outside the domain); the literal
        # multi-byte characters of the patterns (section and paragraph signs) are produced.
        # Members come with branch coverage of the pattern (every alternative at least once).
        try:
            pool = list(cover(e.regex, rng, e.flags, max_samples=spec.get("cover", 24), ascii_only=True))
        except Exception:
            pool = []
        for s in pool:
            if not gen.ascii_ws_domain(s) or not e.compiled_regex.search(s):
                continue
            s = rng.choice(["", "Compare "]) + s + rng.choice(["", " and so on."])   # (not "See": a stop-word token would take the blank the member needs as its boundary)
            want = {tkey(e.get_token(m)): e.get_token(m) for m in e.get_matches(s)}
            try:
                have = {tkey(x) for x in hs.extract_tokens(s)}
            except Exception as x:
                rec.violation("C14.hyperscan_raised." + type(x).__name__, dict(text=s), observed=str(x)[:200])
                continue
            rec.ev()
            rec.count("pattern_members_compared")
            for k, t in want.items():
                if k in have:
                    continue
                if any(ord(c) > 127 and c.isalnum() for c in str(t)):
                    rec.count("candidate_outside_domain_skipped")
                    continue
                rec.violation("C14.missing_in_hyperscan", dict(text=s, extractor=idx),
                              observed=dict(token=M.ser_token(t), touches_multibyte=False,
                                            pattern_has_multibyte_in_class=multibyte_class_pattern(s, t, by_type),
                                            context=s[max(0, t.start - 3):t.end + 3]))


# ---------------------------------------------------------------- (d) cache faults

TEXT = "See Foo v. Bar, 1 U.S. 1 (1999). Id. at 5. § 3; “2 U. S. 2” Roe, 3 U.S. at 4, supra. SEE 4 u.s. 5; ID. AT 6; 7 U.Z. 8"


def small_extractors(n_us=6):
    from eyecite.tokenizers import EXTRACTORS
    return [e for e in EXTRACTORS if "U\\.S\\." in e.regex][:n_us] + EXTRACTORS[-5:]


def fault_list(size, rng, tier, shard, nshards, small2=False):
    """Fault descriptors for a cache file of `size` bytes."""
    out = []
    if tier == "thorough" and small2:
        out += [dict(kind="truncate", n=n) for n in range(0, size)]
    else:
        step = max(1, size // 400)
        out += [dict(kind="truncate", n=n) for n in range(0, size, step)]
        out += [dict(kind="truncate", n=n) for n in (1, 2, 3, 4, 7, 8, 15, 16, 31, 32, 63, 64, size - 1, size - 2)]
    out += [dict(kind="bitflip_header", pos=p, bit=b) for p in range(64) for b in range(8)]
    out += [dict(kind="byte_body", pos=rng.randrange(64, size), val=rng.choice([0, 255, 0x5A]))
            for _ in range(100 if tier == "quick" else 1500)]
    out += [dict(kind="garbage", n=rng.choice([1, 10, 1000, size]), seed=rng.randrange(1 << 30)) for _ in range(12)]
    out += [dict(kind="append", n=rng.choice([1, 8, 4096]), seed=rng.randrange(1 << 30)) for _ in range(8)]
    out += [dict(kind="empty")]
    out += [dict(kind="version_field", pos=p, val=v) for p in range(4, 20) for v in (0, 1, 255)]
    out += [dict(kind="crash_during_write", n=n) for n in
            sorted({0, 1, 64, size // 3, size // 2, size - 1, rng.randrange(size), rng.randrange(size)})]
    out += [dict(kind="dir_state", state=s) for s in ("absent", "file_in_the_way_removed", "other_files")]
    out += [dict(kind="concurrent_first_construction", n=4)]
    out += [dict(kind="cache_filled_by_variant", variant=v) for v in ("flags", "one_regex", "order")]
    return [f for j, f in enumerate(out) if j % nshards == shard]


def run_faults(spec, rec, full=False):
    """Drive the worker interpreter; restart it after a death."""
    workdir = spec["workdir"]
    tag = f"{spec['part']}{spec['i']}"
    cdir = os.path.join(workdir, "cache-" + tag)
    rng = random.Random(spec["seed"])
    pending = None
    results = []
    batch = os.path.join(workdir, f"batch-{tag}.json")
    journal = os.path.join(workdir, f"journal-{tag}.jsonl")
    req = dict(cache_dir=cdir, full=full, seed=spec["seed"], tier=spec["tier"], shard=spec["i"],
               nshards=spec["nshards"], journal=journal, skip=0)
    restarts = 0
    while True:
        with open(batch, "w") as f:
            json.dump(req, f)
        p = subprocess.run([core.PY, "-X", "faulthandler", "-m", "vmon.props.c14_worker", batch],
                           env=core.child_env(), cwd=core.VERIF, stdout=subprocess.PIPE, stderr=subprocess.PIPE,
                           timeout=3 * 3600)
        done, started = [], None
        if os.path.exists(journal):
            for line in open(journal):
                try:
                    r = json.loads(line)
                except ValueError:
                    continue
                if r.get("event") == "start":
                    started = r
                elif r.get("event") == "done":
                    done.append(r)
                    started = None
        results = done
        if p.returncode == 0:
            break
        # worker died: the fault in progress is the witness
        restarts += 1
        rec.violation("C14.cache_fault_killed_process", dict(fault=(started or {}).get("fault"), full=full),
                      observed=dict(returncode=p.returncode, stderr=p.stderr.decode("utf8", "replace")[-600:]))
        if restarts > 5 or started is None:
            rec.note("worker died repeatedly: " + p.stderr.decode("utf8", "replace")[-400:])
            break
        req["skip"] = started["index"] + 1
    for r in results:
        f = r["fault"]
        rec.ev()
        rec.count("fault_cases")
        rec.count("fault:" + ("full_db" if full else f["kind"]))
        if r.get("changed"):
            rec.nontrivial([full, f])
        for phase in ("first", "second"):
            o = r[phase]
            if o["outcome"] == "raise":
                rec.violation(f"C14.cache_fault_raised.{o['exception']}", dict(fault=f, full=full, phase=phase),
                              observed=o.get("message"))
            elif o["outcome"] == "diff":
                rec.violation("C14.cache_fault_changed_tokens", dict(fault=f, full=full, phase=phase),
                              observed=o.get("got"), expected=o.get("want"))
            elif o["outcome"] == "ok":
                rec.count("faults_forcing_recompile" if o.get("recompiled") else "faults_loaded_from_cache")
        if len(rec.samples) < 3:
            rec.sample(dict(fault=f, full_database=full, first=r["first"]["outcome"], second=r["second"]["outcome"],
                            recompiled=r["first"].get("recompiled")))
    shutil.rmtree(cdir, ignore_errors=True)


def run_shard(spec, rec):
    instrument.install(rec, what=())
    if spec["part"] == "compare":
        run_compare(spec, rec)
    elif spec["part"] == "faults":
        run_faults(spec, rec, full=False)
    else:
        run_faults(spec, rec, full=True)


def replay(w, rec):
    c = w["case"]
    if "text" in c:
        from eyecite.tokenizers import EXTRACTORS
        by_type = {}
        for e in EXTRACTORS:
            name = getattr(e.constructor, "__self__", None)
            by_type.setdefault(name.__name__ if name else "?", []).append(e)
        compare_doc(c["text"], rec, tok.get("ref"), tok.get("hs"), by_type)
    else:
        from vmon.props import c14_worker
        d = os.path.join(core.CACHE, "replay-c14")
        shutil.rmtree(d, ignore_errors=True)
        r = c14_worker.run_one(c["fault"], d, bool(c.get("full")), c14_worker.Fixture(bool(c.get("full")), d))
        for phase in ("first", "second"):
            if r[phase]["outcome"] != "ok":
                rec.violation("C14.cache_fault_" + r[phase]["outcome"], c, observed=r[phase])
        shutil.rmtree(d, ignore_errors=True)
