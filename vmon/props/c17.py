"""C17 Extracted metadata is text taken from the citation's own extent."""
from vmon import gen, instrument, tok
from vmon import monitors as M
from vmon.props import _extract

LEVEL = "exploration"
RULE = ("seeded citation-dense documents with consecutive citations with and without case names, "
        "parallel cites, California-style leading years, nested parentheticals, statutes with "
        "publisher/date, journals, plus hostile mutations; every textual metadata value of every "
        "returned citation must be a substring of text[full_span] or of the joint extent of the "
        "citations sharing its full-span start; non-trivial = a citation with at least one textual "
        "metadata value; distinct = distinct (tokenizer, input)")
ASSUMPTIONS = ["in markup mode the extent is taken in clean_text(markup, steps)"]
FLOORS = {
    "quick": {"metadata_values_checked": 20000, "parallel_copy_events": 300, "bare_consecutive_fulls": 200,
              "field:year": 2000, "field:plaintiff": 2000, "field:defendant": 2000, "field:pin_cite": 2000,
              "field:parenthetical": 500, "field:antecedent_guess": 1000, "field:extra": 100,
              "field:publisher": 30, "field:month": 10, "field:volume": 50},
    "thorough": {"metadata_values_checked": 1000000, "parallel_copy_events": 15000,
                 "bare_consecutive_fulls": 10000, "field:publisher": 1000, "field:month": 300},
}
N = {"quick": 500, "thorough": 25000}
SHARDS = {"quick": 8, "thorough": 14}
PROBES = ["1 U.S. 1 (1999). Then came 2 F.2d 2 (2005)", "United States( v. Bar, 1 U.S. 1",
          "Shapiro v. Thompson, 394 U. S. 618"]


def plan(tier, seed):
    specs = [dict(i=i, n=N[tier], seed=seed * 1000 + i, corpus=(i == 0), probes=(i == 0))
            for i in range(SHARDS[tier])]
    if tier == "thorough":
        specs.append(dict(i=99, suite=True, n=0, seed=seed))
    return specs


def prepare(tier, seed, workdir):
    tok.prebuild_hs()


def classify(v):
    return None


def extra(rng, rec):
    r = rng.random()
    y = lambda: rng.choice(["1999", "2005", "1850", "1975", "2011"])  # noqa
    bare = lambda: f"{gen.num(rng)} {gen.rep(rng)} {gen.num(rng)}"  # noqa
    if r < 0.08:   # a long stretch of ordinary words (around the 300-character scan cap) before the citation
        lead = gen.filler(rng, rng.randint(270, 330)).capitalize()
        form = rng.random()
        if form < 0.4:
            return f"{lead} {gen.name(rng)}, {bare()}, {gen.num(rng)} ({y()})."
        if form < 0.7:
            return f"{lead} {gen.name(rng)}, {bare().rsplit(' ', 1)[0]} at {gen.num(rng)}."
        return f"{lead} {gen.name(rng)}, supra, at {gen.num(rng)}."
    if r < 0.14:   # a multi-word party name repeated with other white space
        a = rng.choice(["Bell Atlantic Corp.", "Theatre Enterprises", "Acme Widget Company", "De la Cruz", "Mar. Overseas Corp."])
        ws = rng.choice(["  ", "\n", " \n", "\t"])
        side = rng.random() < 0.5
        p1, p2 = (a, gen.name(rng)) if side else (gen.name(rng), a)
        return (f"{p1} v. {p2}, {bare()} ({y()}). The court in {a.replace(' ', ws)} at {gen.num(rng)} agreed; "
                f"{a.replace(' ', ws, 1)} at {gen.num(rng)}.")
    if r < 0.25:   # consecutive bare citations with different years
        s = f"{bare()} ({y()}). {rng.choice(['Then came', 'See also', 'And', 'But'])} {bare()} ({y()}); {bare()}"
    elif r < 0.4:  # parallel with one name
        s = f"{gen.name(rng)} v. {gen.name(rng)}, {bare()}, {bare()}, {bare()} ({rng.choice(['', 'Cal. '])}{y()})"
    elif r < 0.55:  # california style
        s = f"{gen.name(rng)} v. {gen.name(rng)} ({y()}) {bare()}, {bare()}. {gen.name(rng)} v. {gen.name(rng)} ({y()}) {bare()}"
    elif r < 0.7:  # nested parentheticals
        s = (f"{gen.name(rng)} v. {gen.name(rng)}, {bare()}, {gen.num(rng)} ({y()}) (holding that (a) x and (b) y "
             f"(citing {gen.name(rng)} v. {gen.name(rng)}, {bare()} ({y()})))")
    elif r < 0.8:
        s = (f"{rng.choice(['Mass. Gen. Laws ch. 1, § 2', '42 U.S.C. § 1983', 'Fla. Stat. § 1.01(a)(2)', '29 C.F.R. § 1910.1'])} "
             f"({rng.choice(['West ', 'Lexis Supp. ', 'West Jan. 2, ', 'May 5, ', ''])}{y()}) ({rng.choice(['repealed', 'amended 2001'])}); {bare()} ({y()})")
    elif r < 0.9:
        s = f"{gen.name(rng)}, {gen.num(rng)} supra, at {gen.num(rng)}; {gen.name(rng)}, {bare().rsplit(' ', 1)[0]} at {gen.num(rng)} ({rng.choice(['noting x', 'same'])})"
    else:
        s = f"{gen.num(rng)} Harv. L. Rev. {gen.num(rng)}, {gen.num(rng)} ({y()}) (discussing {gen.name(rng)}); {bare()}, {gen.num(rng)} n.3 ({y()})"
    if rng.random() < 0.25:
        s = gen.mutate(s, rng, k=1, rec=rec)
    return s


def on_result_factory(rec):
    from eyecite.models import FullCaseCitation, FullCitation

    def on_result(text, cs, cfg):
        nvals = 0
        starts = {}
        prev = None
        for c in cs:
            fields = M.TEXT_FIELDS + (("parenthetical",) if isinstance(c, FullCitation) else ())
            for k in fields:
                v = getattr(c.metadata, k, None)
                if v and isinstance(v, str):
                    nvals += 1
                    rec.count("field:" + k)
            if isinstance(c, FullCaseCitation):
                fs = c.full_span_start
                if fs is not None and fs in starts:
                    rec.count("parallel_copy_events")
                if fs is not None:
                    starts[fs] = c
                if fs is None and isinstance(prev, FullCaseCitation) and prev.full_span_start is None:
                    rec.count("bare_consecutive_fulls")
            prev = c
        rec.count("metadata_values_checked", nvals)
        for mon, obs in M.metadata_extent(text, cs):
            rec.violation(mon, cfg, observed=obs)
        if len(rec.samples) < 3 and nvals >= 6:
            rec.sample(dict(cfg, metadata=[(M.kind(c), c.full_span(), {k: v for k, v in c.metadata.__dict__.items() if v}) for c in cs][:6]))
    return on_result


def run_shard(spec, rec):
    if spec.get("suite"):
        return _extract.suite_under_contracts(rec, "C17.")
    instrument.install(rec, what=())
    on_result = on_result_factory(rec)
    if spec.get("probes"):
        from eyecite import get_citations
        for p in PROBES:
            rec.ev()
            on_result(p, get_citations(p), dict(text=p, markup=None, steps=None, tokenizer="ac"))
    _extract.drive(spec, rec, on_result, extra=extra)


def replay(w, rec):
    text, cs = _extract.rerun(w["case"])
    on_result_factory(rec)(text, cs, w["case"])
