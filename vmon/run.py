"""CLI: python -m vmon.run C07 quick | thorough | --replay <path>
       python -m vmon.run --shard ...   (internal)"""
import os
import sys

from vmon import core


def main(argv):
    if argv and argv[0] == "--shard":
        return core.shard_main(argv[1:])
    if len(argv) < 2:
        print(__doc__)
        return 64
    prop = argv[0].upper()
    if argv[1] == "--replay":
        return core.replay(prop, argv[2])
    tier = os.environ.get("VERIF_TIER") or argv[1]
    if argv[1] in ("quick", "thorough"):
        tier = argv[1]
    seed = int(os.environ.get("VERIF_SEED", "0") or 0)
    return core.run_property(prop, tier, seed)


if __name__ == "__main__":
    sys.exit(main(sys.argv[1:]))
