#!/usr/bin/env python3
"""tools/unreached.py C09 : print the source lines of the property's anchored files that the last run of
its check did not execute (from evidence/<ID>.json)."""
import json, sys
pid = sys.argv[1]
e = json.load(open(f"/verif/evidence/{pid}.json"))["coverage"]["eyecite_code_reached"]
for f, v in e.items():
    if not v.get("anchored_file"):
        continue
    src = open(f"/repo/eyecite/{f}").read().split("\n")
    print(f"== {f}: {v['function_lines_executed']}/{v['function_lines_total']} lines in functions executed")
    for ln in v.get("lines_not_executed", []):
        print(f"   {ln:4d}  {src[ln-1].rstrip()[:110]}")
