#!/usr/bin/env python3
"""For one seeded change per property: run the check on the changed tree, take the first witness, and
confirm that `./check <ID> --replay <file>` reports it on the changed tree (exit 1) and not on the
unchanged tree (exit 0). Prints one line per property."""
import glob
import json
import os
import re
import subprocess
import sys

VERIF = os.path.dirname(os.path.dirname(os.path.abspath(__file__)))
REPO = "/repo"
WT = "/tmp/vmon-replay-worktree"


def sh(cmd, cwd=None, env=None, timeout=3600):
    p = subprocess.run(cmd, shell=True, cwd=cwd, env=env, timeout=timeout, stdout=subprocess.PIPE, stderr=subprocess.STDOUT)
    return p.returncode, p.stdout.decode("utf8", "replace")


def main(names):
    sh(f"git worktree remove --force {WT}", cwd=REPO)
    rc, out = sh(f"git worktree add -q --detach {WT} HEAD", cwd=REPO)
    assert rc == 0, out
    res = json.load(open(os.path.join(VERIF, "seeded", "RESULTS.json")))
    try:
        done = set()
        for name in sorted(res):
            prop = res[name].get("property")
            if names and name not in names:
                continue
            if not names and (prop in done or res[name].get("quick", {}).get(prop, {}).get("verdict") != "caught"):
                continue
            d = os.path.join(VERIF, "seeded", name)
            rc, out = sh(f"git apply {d}/patch.diff", cwd=WT)
            if rc:
                continue
            env = dict(os.environ, VMON_REPO=WT, VMON_EVIDENCE_DIR=os.path.join(WT, ".vmon-evidence"))
            rc, out = sh(f"./check {prop} quick", cwd=VERIF, env=env)
            paths = re.findall(r"^VIOLATION property=\S+ replay=(\S+)", out, re.M)
            if not paths:
                print(f"{name} {prop}: no witness produced (rc={rc})")
                sh("git checkout -- .", cwd=WT)
                continue
            r1, o1 = sh(f"./check {prop} --replay {paths[0]}", cwd=VERIF, env=env)
            sh("git checkout -- .", cwd=WT)
            r0, o0 = sh(f"./check {prop} --replay {paths[0]}", cwd=VERIF, env=env)
            verdict = "OK" if (r1 == 1 and r0 == 0) else "CHECK"
            print(f"{name} {prop}: replay on changed tree rc={r1}, on unchanged tree rc={r0}  {verdict}", flush=True)
            done.add(prop)
    finally:
        sh(f"git worktree remove --force {WT}", cwd=REPO)
        sh("git worktree prune", cwd=REPO)


if __name__ == "__main__":
    main(sys.argv[1:])
