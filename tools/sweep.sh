#!/bin/bash
# tools/sweep.sh <tier> "<seeds>" [ids...]  : run checks for several seeds, print one line per run
[ -n "$VP_RUN_REPO" ] && export VMON_REPO="$VP_RUN_REPO"
tier="${1:-quick}"; seeds="${2:-0 1 2 7 12345}"; shift 2
ids="$@"
[ -z "$ids" ] && ids=$(python3 -c "import json;print(' '.join(c['property_id'] for c in json.load(open('MANIFEST.json'))['checks']))")
./setup.sh >/dev/null
for s in $seeds; do for id in $ids; do
  t0=$(date +%s)
  VERIF_SEED=$s ./check $id $tier > sweep_$id.log 2>&1; rc=$?
  echo "seed=$s $id rc=$rc $(( $(date +%s)-t0 ))s $(grep -E '^(VIOLATION|INCONCLUSIVE|KNOWN-FINDING)' sweep_$id.log | cut -c1-200 | tr '\n' '|')"
  [ $rc -ne 0 ] && grep -E "violation monitor" sweep_$id.log | head -3 | cut -c1-700
done; done
