#!/usr/bin/env python3
"""Validate seeded changes and run the checks against them.

  tools/seedcheck.py validate <dir-with patchN.diff/demoN.py/notesN.md> <PROP>   -> copies accepted ones to seeded/
  tools/seedcheck.py run [name ...] [--tier quick|thorough] [--all-checks]        -> applies each seeded patch to /repo,
        runs the property's check (or all), reverts, and rewrites seeded/RESULTS.json + the table in DESIGN.md (§10)

/repo is always restored with `git checkout -- .` (also on error)."""
import glob
import json
import os
import re
import shutil
import subprocess
import sys

VERIF = os.path.dirname(os.path.dirname(os.path.abspath(__file__)))
REPO = "/repo"
PY = "/venv/bin/python"


def sh(cmd, cwd=None, timeout=3600, env=None):
    p = subprocess.run(cmd, shell=isinstance(cmd, str), cwd=cwd, timeout=timeout, env=env,
                       stdout=subprocess.PIPE, stderr=subprocess.STDOUT)
    return p.returncode, p.stdout.decode("utf8", "replace")


def clean():
    sh("git checkout -- . && git clean -fdq -- eyecite tests", cwd=REPO)


def repo_is_clean():
    rc, out = sh("git status --porcelain", cwd=REPO)
    return out.strip() == ""


def run_tests():
    rc, out = sh(f"{PY} -m pytest -q -p no:cacheprovider --timeout=900 -n 8", cwd=REPO, timeout=1800)
    m = re.search(r"(\d+) passed", out)
    failed = re.search(r"(\d+) failed", out)
    return rc == 0 and m and int(m.group(1)) == 50 and not failed, out[-400:]


def run_demo(path):
    env = dict(os.environ, PYTHONPATH=REPO, PYTHONDONTWRITEBYTECODE="1")
    rc, out = sh([PY, path], cwd=REPO, timeout=900, env=env)
    return rc, out[-600:]


def validate(src, prop):
    assert repo_is_clean(), "/repo not clean"
    accepted = []
    for patch in sorted(glob.glob(os.path.join(src, "patch*.diff"))):
        n = re.search(r"patch(\d+)\.diff", patch).group(1)
        demo = os.path.join(src, f"demo{n}.py")
        notes = os.path.join(src, f"notes{n}.md")
        name = f"{prop}-{n}"
        if not os.path.exists(demo):
            print(name, "REJECT: no demo")
            continue
        try:
            rc0, out0 = run_demo(demo)
            if rc0 != 0:
                print(name, "REJECT: demo fails on the unchanged tree:", out0[-300:])
                continue
            rc, out = sh(f"git apply {patch}", cwd=REPO)
            if rc != 0:
                print(name, "REJECT: patch does not apply:", out[-300:])
                continue
            ok, tout = run_tests()
            if not ok:
                print(name, "REJECT: existing tests do not pass with the change:", tout[-200:])
                continue
            rc1, out1 = run_demo(demo)
            if rc1 == 0:
                print(name, "REJECT: demo passes with the change")
                continue
        finally:
            clean()
        dst = os.path.join(VERIF, "seeded", name)
        os.makedirs(dst, exist_ok=True)
        shutil.copy(patch, os.path.join(dst, "patch.diff"))
        shutil.copy(demo, os.path.join(dst, "demo.py"))
        needs = open(notes).read() if os.path.exists(notes) else ""
        meta = dict(property=prop, name=name, source="independent sub-agent (saw only the property text and a scratch worktree)",
                    needs_to_manifest=needs.strip()[:3000],
                    confirmed=dict(demo_on_unchanged_tree="exit 0", tests_with_change="50 passed",
                                   demo_with_change=f"exit {rc1}: {out1.strip()[-300:]}"),
                    ran=["git -C /repo apply patch.diff", "pytest (50 passed)", "demo.py (fails)", "git -C /repo checkout -- ."])
        json.dump(meta, open(os.path.join(dst, "meta.json"), "w"), indent=1)
        print(name, "ACCEPTED")
        accepted.append(name)
    return accepted


def run(names, tier="quick", all_checks=False, seed=None):
    """Checks run against a scratch worktree of /repo's HEAD (VMON_REPO), so /repo itself stays untouched
    and other work can go on; the worktree is removed afterwards."""
    wt = os.environ.get("VMON_SEED_WT", "/tmp/vmon-seed-worktree")
    sh(f"git worktree remove --force {wt}", cwd=REPO)
    rc, out = sh(f"git worktree add -q --detach {wt} HEAD", cwd=REPO)
    assert rc == 0, out
    try:
        return _run(names, tier, all_checks, wt, seed)
    finally:
        sh(f"git worktree remove --force {wt}", cwd=REPO)
        sh("git worktree prune", cwd=REPO)


def _run(names, tier, all_checks, wt, seed=None):
    res_path = os.environ.get("VMON_SEED_RESULTS") or os.path.join(VERIF, "seeded", "RESULTS.json")
    results = json.load(open(res_path)) if os.path.exists(res_path) else {}
    checks = [c["property_id"] for c in json.load(open(os.path.join(VERIF, "MANIFEST.json")))["checks"]]
    for d in sorted(glob.glob(os.path.join(VERIF, "seeded", "C*"))):
        name = os.path.basename(d)
        if names and name not in names:
            continue
        meta = json.load(open(os.path.join(d, "meta.json")))
        prop = meta["property"]
        try:
            rc, out = sh(f"git apply {d}/patch.diff", cwd=wt)
            if rc != 0:
                print(name, "patch no longer applies:", out[-200:])
                results.setdefault(name, {})["status"] = "patch does not apply to the current tree"
                continue
            todo = checks if all_checks else [prop] + meta.get("also_run", [])
            r = results.setdefault(name, {"property": prop})
            r.pop("status", None)
            for cid in todo:
                rc, out = sh(f"./check {cid} {tier}", cwd=VERIF, timeout=6 * 3600,
                             env=dict(os.environ, VMON_REPO=wt, VMON_EVIDENCE_DIR=os.path.join(wt, ".vmon-evidence"),
                                      **({"VERIF_SEED": str(seed)} if seed is not None else {})))
                mons = sorted(set(re.findall(r"violation monitor=(\S+)", out)))
                verdict = {0: "missed", 1: "caught", 2: "inconclusive"}.get(rc, f"rc={rc}")
                tkey = tier if seed is None else f"{tier}@seed{seed}"
                r.setdefault(tkey, {})[cid] = dict(verdict=verdict, monitors=mons[:6])
                print(f"{name} {cid} {tkey}: {verdict} {mons[:3]}", flush=True)
        finally:
            sh("git checkout -- . && git clean -fdq -- eyecite tests", cwd=wt)
        json.dump(results, open(res_path, "w"), indent=1, sort_keys=True)
    # restore evidence of the unchanged tree for the checks we disturbed is the caller's job (re-run checks)
    return results


def table():
    res_path = os.path.join(VERIF, "seeded", "RESULTS.json")
    results = json.load(open(res_path)) if os.path.exists(res_path) else {}
    lines = ["| seeded change | breaks | what it needs | caught by (quick) | caught by (thorough) |", "|---|---|---|---|---|"]
    for name in sorted(results):
        d = os.path.join(VERIF, "seeded", name)
        if not os.path.exists(os.path.join(d, "meta.json")):
            continue
        meta = json.load(open(os.path.join(d, "meta.json")))
        short = meta.get("summary") or meta.get("needs_to_manifest", "").split("\n")[0][:140]
        def fmt(t):
            rr = results[name].get(t, {})
            c = [f"{k} ({', '.join(v['monitors'][:2])})" for k, v in rr.items() if v["verdict"] == "caught"]
            m = [k for k, v in rr.items() if v["verdict"] != "caught"]
            return ("; ".join(c) or "-") + (f" / not by: {', '.join(m)}" if m and not c else "")
        lines.append(f"| {name} | {meta['property']} | {short.replace('|', '/')} | {fmt('quick')} | {fmt('thorough')} |")
    return "\n".join(lines)


if __name__ == "__main__":
    cmd = sys.argv[1]
    if cmd == "validate":
        validate(sys.argv[2], sys.argv[3])
    elif cmd == "run":
        args = sys.argv[2:]
        tier = "quick"
        if "--tier" in args:
            tier = args[args.index("--tier") + 1]
            del args[args.index("--tier"):args.index("--tier") + 2]
        allc = "--all-checks" in args
        seed = None
        if "--seed" in args:
            seed = int(args[args.index("--seed") + 1])
            del args[args.index("--seed"):args.index("--seed") + 2]
        args = [a for a in args if not a.startswith("--")]
        run(args, tier, allc, seed)
    elif cmd == "table":
        print(table())
