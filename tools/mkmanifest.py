#!/usr/bin/env python3
"""Regenerate MANIFEST.json from the table below (single source of truth)."""
import json
import os
import subprocess

HERE = os.path.dirname(os.path.dirname(os.path.abspath(__file__)))
BASE = ("cd /repo && /venv/bin/python -m pytest -ra -q -p no:cacheprovider --timeout=900 "
        "--continue-on-collection-errors --junitxml=/tmp/eyecite-baseline-off.junit.xml")

NOTE = ("Decides the property on the executions this run produced (counts are in the evidence file); "
        "trusted base: CPython 3.12 re/sys.monitoring, icontract, lxml, regex, the installed "
        "reporters-db/courts-db, and the generator / reference-model code under /verif/vmon.")

CLAIMED = {
    # id: (technique, level text, design ref)
    "C02": ("runtime monitor: offset/slice/pin-span oracle at the get_citations boundary over dense hostile "
            "documents, plain + markup mode, three tokenizers",
            "Held on N observed extractions (every citation kind, each tokenizer, markup mode) of adversarial "
            "documents; known finding: the hard-wired 'eyecite' joke citation.", "§4/C02"),
    "C03": ("runtime monitor: order/uniqueness oracle on get_citations results + icontract postcondition on "
            "every filter_citations call + merge-history checker (identity, idempotence)",
            "Held on N observed result lists and M merge histories that really added references.", "§4/C03"),
    "C04": ("runtime monitor: exception-escape monitor at the three public APIs under hostile splices, "
            "all tokenizer/option/mode configurations",
            "No exception escaped on N calls per API with every hostile fragment class spliced >= floor times.",
            "§4/C04"),
    "C17": ("runtime monitor: substring-of-own-extent oracle on every textual metadata value",
            "Held on N metadata values incl. observed parallel-copy events and bare consecutive citations.",
            "§4/C17"),
    "C18": ("runtime monitor: independent year-range / edition-guess oracle + remove_ambiguous differential",
            "Held on N resource citations with boundary years in every position and multi-edition reporters "
            "from the whole database.", "§4/C18"),
    "C12": ("runtime monitor: partition postcondition (icontract) on Tokenizer.tokenize for all three "
            "tokenizers + sys.monitoring loop-invariant hook on the live `offset`",
            "Held on N observed tokenisations of adversarial overlap-forcing documents; mechanism counters "
            "(merges, overlap skips, nominative drops) prove the anchored code paths ran.", "§4/C12"),
}

PENDING_REASON = "check not built yet in this round (monitor designed in DESIGN.md §4); not claimed until it runs"


def main():
    props = [json.loads(l) for l in open(os.path.join(HERE, "properties.jsonl"))]
    checks, na = [], []
    for p in props:
        pid = p["id"]
        if pid in CLAIMED:
            tech, text, ref = CLAIMED[pid]
            checks.append(dict(
                property_id=pid,
                quick_cmd=f"./check {pid} quick",
                thorough_cmd=f"./check {pid} thorough",
                evidence_file=f"/verif/evidence/{pid}.json",
                replay_cmd_template=f"./check {pid} --replay {{path}}",
                engine="vmon",
                level_claimed=dict(category="exploration", text=text, design_ref=ref),
                level_note=NOTE,
                technique=tech,
            ))
        else:
            na.append(dict(property_id=pid, reason=PENDING_REASON))
    try:
        hooks_commits = []
    except Exception:
        hooks_commits = []
    m = dict(
        version=1,
        setup_cmd="./setup.sh",
        hooks=dict(
            guard="EYECITE_VERIF",
            enable="no source hooks: monitors attach from outside (icontract wrappers, sys.monitoring); "
                   "./check exports EYECITE_VERIF=1, which vmon.instrument obeys",
            baseline_off_cmd=BASE,
            source_commits=hooks_commits,
            add_only=True,
        ),
        engines=[dict(name="vmon", path="/verif/vmon",
                      serves_properties=sorted(CLAIMED),
                      kind_free_text="runtime monitoring: seeded hostile workloads drive the real eyecite "
                                     "functions; icontract postconditions, sys.monitoring hooks, reference "
                                     "models and history checkers decide; one subprocess per shard")],
        checks=checks,
        notes="All checks: ./check <ID> quick|thorough ; exit 0 held, 1 VIOLATION (replay file written), "
              "2 INCONCLUSIVE (floor not reached / shard died). Known findings: known_findings.json.",
        not_applicable=na,
    )
    with open(os.path.join(HERE, "MANIFEST.json"), "w") as f:
        json.dump(m, f, indent=1)
    print("claimed", len(checks), "not claimed", len(na))


if __name__ == "__main__":
    main()
