#!/usr/bin/env python3
"""Regenerate MANIFEST.json from the table below (single source of truth)."""
import json
import os
import subprocess

HERE = os.path.dirname(os.path.dirname(os.path.abspath(__file__)))
BASE = ("cd /repo && /venv/bin/python -m pytest -ra -q -p no:cacheprovider --timeout=900 "
        "--continue-on-collection-errors --junitxml=/tmp/eyecite-baseline-off.junit.xml")

NOTE = ("Decides the property on the executions this run produced (counts are in the evidence file); "
        "trusted base: CPython 3.12 re/sys.monitoring, icontract, lxml, regex, the installed "
        "reporters-db/courts-db, and the generator / reference-model code under /verif/vmon.")

CATEGORY = {"C14": "fault_enumeration"}

CLAIMED = {
    # id: (technique, level text, design ref)
    "C01": ("runtime monitor: ground-truth generator (side-channel truth of every written citation) vs. "
            "get_citations; database-exhaustive literal forms, members of reporters-db's own templates (expanded without "
            "the library's pattern builder), statute templates written literally, regex-parse-tree members of every pattern",
            "Exact-component oracle held on every standard reporter string of the database in both minimal forms, "
            "members of every database template and of every library pattern, all DB examples and N rich forms "
            "(full/parallel/short/supra/id./journal/statute/antecedent/bare pairs/scenario documents); open findings: "
            "parallel reporter containing a parenthesis, parenthetical containing a special token after "
            "string-scanned forms, string cite after a closed citation taken as parallel.", "§4/C01"),
    "C13": ("runtime monitor: lossless-filter oracle (compiled regex as judge) on members sampled from every "
            "extractor pattern + token-stream differential AC vs reference tokenizer on full and custom lists",
            "Every one of the ~6,800 patterns sampled; regular-language inclusion itself is static and only decided "
            "on the sampled members (stated gap).", "§4/C13"),
    "C14": ("runtime monitor: candidate-level differential Hyperscan vs reference tokenizer with structural "
            "genuineness validator + cache fault enumeration in journaled worker interpreters",
            "Fault enumeration for the cache clause (truncation lengths, header bits, body bytes, garbage, append, "
            "crash during write, concurrent construction; small and full database); exploration for the "
            "drop-in clause (documents, edge fragments, branch- and class-member coverage of every pattern); open "
            "findings: non-ASCII character inside a character class of a database pattern, leftmost-start reporting.", "§4/C14"),
    "C15": ("runtime monitor: history checker over (process, hash seed, thread, call index) events - fresh "
            "interpreters per PYTHONHASHSEED, call-order permutations with snapshots, threads under "
            "sys.monitoring yield injection",
            "All serialisations of each (text, options) equal across 8/40 processes (hash seeds; the odd ones also "
            "walk the corpus in their own order), repeated calls incl. after the caller changed the returned list, "
            "cold-first processes and N threaded calls with M forced switches at K distinct source lines.", "§4/C15"),
    "C16": ("runtime monitor: equality/hash/Resource oracle against an independent key, exhaustive over the "
            "database's (edition, variation) pairs + all pairs of generated pools + normal-form round trip",
            "Exhaustive for the standard-template variation pairs of the installed reporters-db; pools sampled.",
            "§4/C16"),
    "C19": ("runtime monitor: markup-mode vs cleaned-plain-mode differential + well-foundedness oracle for "
            "every reference citation",
            "Held on N marked-up documents producing M reference citations (markup-derived and pin-cited).",
            "§4/C19"),
    "C20": ("runtime monitor: independent run-collapser models, composition/idempotence laws (exhaustive small "
            "strings), visible-text oracle on generated element trees",
            "Exhaustive for strings <= 6 over a 5-symbol alphabet and all step lists <= 3; trees sampled.",
            "§4/C20"),
    "C02": ("runtime monitor: offset/slice/pin-span oracle at the get_citations boundary over dense hostile "
            "documents, plain + markup mode, three tokenizers",
            "Held on N observed extractions (every citation kind, each tokenizer, markup mode) of adversarial "
            "documents; known finding: the hard-wired 'eyecite' joke citation.", "§4/C02"),
    "C03": ("runtime monitor: order/uniqueness oracle on get_citations results + icontract postcondition on "
            "every filter_citations call + merge-history checker (identity, idempotence)",
            "Held on N observed result lists and M merge histories that really added references.", "§4/C03"),
    "C04": ("runtime monitor: exception-escape monitor at the three public APIs under hostile splices, "
            "all tokenizer/option/mode configurations",
            "No exception escaped on N calls per API with every hostile fragment class spliced >= floor times, "
            "pattern-guided hostile characters inside volume/page/year/pin components, and every reporter, journal "
            "and statute string of the database once with a year.",
            "§4/C04"),
    "C17": ("runtime monitor: substring-of-own-extent oracle on every textual metadata value",
            "Held on N metadata values incl. observed parallel-copy events and bare consecutive citations.",
            "§4/C17"),
    "C18": ("runtime monitor: independent year-range / edition-guess oracle + remove_ambiguous differential",
            "Held on N resource citations with boundary years in every position and multi-edition reporters "
            "from the whole database.", "§4/C18"),
    "C05": ("runtime monitor: scenario model with generator-side ground truth vs. resolve_citations(get_citations(text))",
            "Held on N scenario documents (small scenario space enumerated exhaustively, larger ones sampled; every "
            "standard-form reporter string of the database in a fixed mini scenario with its other unambiguous "
            "spellings), every reference kind and colliding reporter/volume cases observed.", "§4/C05"),
    "C06": ("runtime monitor: structural partition checker over exhaustively enumerated kind sequences of real "
            "extracted citation objects + extracted lists",
            "Exhaustive for the 21-kind alphabet up to length 3 (quick) / 5 (thorough) and five focus alphabets one "
            "step longer; sampled beyond; member pairs, hostile pairs and database-dated variation pairs.", "§4/C06"),
    "C07": ("runtime monitor: executable reference model (admissible-resource sets) vs. the real resolver on "
            "exhaustively enumerated kind sequences, pin-window boundary values and extracted lists",
            "No inadmissible attachment on all sequences <= 3 (quick) / <= 5 (thorough), five focus alphabets one "
            "step longer and sampled longer ones; the antecedent normaliser is a reference model inside the monitor.",
            "§4/C07"),
    "C08": ("runtime monitor: prefix-replay history checker (re-invokes resolve_citations on every prefix)",
            "Held on every (list, cut) pair of the exhaustive enumeration and of extracted lists; a battery of short "
            "lists resolved first and last in each process must give the same result (history).", "§4/C08"),
    "C09": ("runtime monitor: unique-sentinel strip oracle on annotate_citations over 3 modes x 2 engines x "
            "{no source, forced-alignment source, edited source} + extracted spans on marked-up documents",
            "Held on N annotate calls per (mode, engine, source) cell, incl. empty/overlapping/unsorted spans, "
            "observed style-tag repairs, link-style and template-metacharacter before/after strings (exactly the "
            "passed strings are deleted) and an exhaustive (span, empty span) sweep over style-tag templates.", "§4/C09"),
    "C10": ("runtime monitor: exact expected-output oracle under the forced-alignment construction + "
            "exactly-once/in-order oracle without source + full offset sweep of SpanUpdater.update",
            "Held on N forced-alignment cases with annotations adjacent to inserted material on both sides "
            "(default engine; both engines, twice, and skip/wrap on balanced slices for unique-character texts) and "
            "M string pairs swept over every offset.", "§4/C10"),
    "C11": ("runtime monitor: lxml well-formedness + text-content judge on skip/wrap output over generated "
            "element trees and marked-up legal documents",
            "Held on N trees with spans crossing element boundaries in both modes.", "§4/C11"),
    "C12": ("runtime monitor: partition postcondition (icontract) on Tokenizer.tokenize for all three "
            "tokenizers + sys.monitoring loop-invariant hook on the live `offset`",
            "Held on N observed tokenisations of adversarial overlap-forcing documents; mechanism counters "
            "(merges, overlap skips, nominative drops) prove the anchored code paths ran.", "§4/C12"),
}

PENDING_REASON = "check not built yet in this round (monitor designed in DESIGN.md §4); not claimed until it runs"


def main():
    props = [json.loads(l) for l in open(os.path.join(HERE, "properties.jsonl"))]
    checks, na = [], []
    for p in props:
        pid = p["id"]
        if pid in CLAIMED:
            tech, text, ref = CLAIMED[pid]
            checks.append(dict(
                property_id=pid,
                quick_cmd=f"./check {pid} quick",
                thorough_cmd=f"./check {pid} thorough",
                evidence_file=f"/verif/evidence/{pid}.json",
                replay_cmd_template=f"./check {pid} --replay {{path}}",
                engine="vmon",
                level_claimed=dict(category=CATEGORY.get(pid, "exploration"), text=text, design_ref=ref),
                level_note=NOTE,
                technique=tech,
            ))
        else:
            na.append(dict(property_id=pid, reason=PENDING_REASON))
    try:
        hooks_commits = []
    except Exception:
        hooks_commits = []
    m = dict(
        version=1,
        setup_cmd="./setup.sh",
        hooks=dict(
            guard="EYECITE_VERIF",
            enable="no source hooks: monitors attach from outside (icontract wrappers, sys.monitoring); "
                   "./check exports EYECITE_VERIF=1, which vmon.instrument obeys",
            baseline_off_cmd=BASE,
            source_commits=hooks_commits,
            add_only=True,
        ),
        engines=[dict(name="vmon", path="/verif/vmon",
                      serves_properties=sorted(CLAIMED),
                      kind_free_text="runtime monitoring: seeded hostile workloads drive the real eyecite "
                                     "functions; icontract postconditions, sys.monitoring hooks, reference "
                                     "models and history checkers decide; one subprocess per shard")],
        checks=checks,
        notes="All checks: ./check <ID> quick|thorough ; exit 0 held, 1 VIOLATION (replay file written), "
              "2 INCONCLUSIVE (floor not reached / shard died). Known findings: known_findings.json.",
        not_applicable=na,
    )
    with open(os.path.join(HERE, "MANIFEST.json"), "w") as f:
        json.dump(m, f, indent=1)
    print("claimed", len(checks), "not claimed", len(na))


if __name__ == "__main__":
    main()
