#!/usr/bin/env python3
import os, re, subprocess, sys
here = os.path.dirname(os.path.dirname(os.path.abspath(__file__)))
t = subprocess.run([sys.executable, os.path.join(here, "tools", "seedcheck.py"), "table"], capture_output=True, text=True).stdout
p = os.path.join(here, "DESIGN.md")
s = open(p).read()
block = "<!-- SEEDED-TABLE-BEGIN -->\n" + t.strip() + "\n<!-- SEEDED-TABLE-END -->"
s = re.sub(r"<!-- SEEDED-TABLE-BEGIN -->.*<!-- SEEDED-TABLE-END -->", lambda m: block, s, flags=re.S)   # (a function: the table contains backslashes)
open(p, "w").write(s)
