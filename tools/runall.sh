#!/bin/bash
# regenerate every evidence file on the current /repo tree (quick tier unless $1 given); prints one line per check
cd "$(dirname "$0")/.." || exit 1
tier="${1:-quick}"
git -C /repo diff --quiet || { echo "/repo has uncommitted changes - refusing"; exit 9; }
bad=0
for id in $(python3 -c "import json;print(' '.join(c['property_id'] for c in json.load(open('MANIFEST.json'))['checks']))"); do
  t0=$(date +%s); ./check $id $tier > .cache/runall_$id.log 2>&1; rc=$?
  echo "$id rc=$rc $(( $(date +%s)-t0 ))s $(grep -cE '^KNOWN-FINDING' .cache/runall_$id.log) known $(grep -E '^(VIOLATION|INCONCLUSIVE)' .cache/runall_$id.log | head -2 | cut -c1-160 | tr '\n' '|')"
  [ $rc -ne 0 ] && bad=1
done
exit $bad
