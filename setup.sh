#!/bin/bash
# offline: contracts library beside the repository's interpreter (git-ignored target)
cd "$(dirname "$0")" || exit 1
if [ ! -d .deps/icontract ]; then
  /venv/bin/python -m pip install -q --no-index --find-links /opt/veriftools/wheels --target .deps icontract || exit 1
fi
mkdir -p .cache evidence replay
PYTHONPATH="/repo:$PWD:$PWD/.deps" /venv/bin/python -c "import eyecite, icontract, vmon.core; print('setup ok', eyecite.__file__)"
